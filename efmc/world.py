"""Worlds: a declarative, JSON-able reference model of the *inputs* of an e-footprint model.

A world is ``{"name": str, "system": name, "objects": {name: {"cls": str, "attrs": {attr: value}}}}``
with tagged values

    ["q", magnitude, unit]                 scalar quantity
    ["h", [values], "YYYY-mm-dd HH:MM", unit]  hourly series (naive local start)
    ["c", str]                             categorical SourceObject
    ["tz", zone]                           time zone SourceObject
    ["e"]                                  EmptyExplainableObject
    ["str", s]                             plain string attribute (Country.short_name)
    ["link", name]                         link to another object
    ["list", [names]]                      list of links

``build(world)`` instantiates the real objects; every edit letter has two semantics: ``apply_spec`` (pure
update of the dict: the reference model) and ``apply_live`` (the real setattr / list call / ModelingUpdate).
``build(apply_spec(world, e), closure_only=True)`` is the fresh-rebuild oracle.
"""
import copy
import json
from datetime import datetime

from efmc import boot

boot.core()

import pytz  # noqa: E402
from efootprint.abstract_modeling_classes.source_objects import SourceValue, SourceHourlyValues, SourceObject  # noqa: E402
from efootprint.abstract_modeling_classes.explainable_objects import EmptyExplainableObject  # noqa: E402
from efootprint.abstract_modeling_classes.modeling_update import ModelingUpdate  # noqa: E402
from efootprint.builders.time_builders import create_hourly_usage_df_from_list  # noqa: E402
from efootprint.constants.units import u  # noqa: E402

# creation order by class (dependencies first)
ORDER = ["Storage", "Server", "GPUServer", "BoaviztaCloudServer", "VideoStreaming", "WebApplication", "GenAIModel",
         "Job", "GpuJob", "VideoStreamingJob", "WebApplicationJob", "GenAIJob", "UsageJourneyStep", "UsageJourney",
         "Network", "Country", "Device", "UsagePattern", "System"]

# rank groups: objects whose instances can meet in one set
RANK_GROUP = {"Storage": "Storage", "Server": "Server", "GPUServer": "Server", "BoaviztaCloudServer": "Server",
              "VideoStreaming": "Job", "WebApplication": "Job", "GenAIModel": "Job", "Job": "Job", "GpuJob": "Job",
              "VideoStreamingJob": "Job", "WebApplicationJob": "Job", "GenAIJob": "Job",
              "UsageJourneyStep": "UsageJourneyStep", "UsageJourney": "UsageJourney", "Network": "Network",
              "Country": "Country", "Device": "Device", "UsagePattern": "UsagePattern", "System": "System"}

_CLS = {}


def get_cls(name):
    if name in _CLS:
        return _CLS[name]
    from efootprint.core.hardware.device import Device
    from efootprint.core.usage.job import Job
    from efootprint.core.usage.usage_journey import UsageJourney
    from efootprint.core.usage.usage_journey_step import UsageJourneyStep
    from efootprint.core.hardware.server import Server
    from efootprint.core.hardware.gpu_server import GPUServer
    from efootprint.core.hardware.storage import Storage
    from efootprint.core.usage.usage_pattern import UsagePattern
    from efootprint.core.hardware.network import Network
    from efootprint.core.country import Country
    from efootprint.core.system import System
    _CLS.update({"Storage": Storage, "Server": Server, "GPUServer": GPUServer, "Job": Job,
                 "UsageJourneyStep": UsageJourneyStep, "UsageJourney": UsageJourney, "Network": Network,
                 "Country": Country, "Device": Device, "UsagePattern": UsagePattern, "System": System})
    if name == "GpuJob":
        # harness-side plain job whose compute default is expressed in gpu (a plain Job refuses gpu units)
        class GpuJob(Job):
            @classmethod
            def default_values(cls):
                d = Job.default_values()
                d["compute_needed"] = SourceValue(1 * u.gpu)
                return d
        _CLS["GpuJob"] = GpuJob
    if name not in _CLS:
        boot.all_classes()
        from efootprint.builders.hardware.boavizta_cloud_server import BoaviztaCloudServer
        from efootprint.builders.services.generative_ai_ecologits import GenAIModel, GenAIJob
        from efootprint.builders.services.video_streaming import VideoStreaming, VideoStreamingJob
        from efootprint.builders.services.web_application import WebApplication, WebApplicationJob
        _CLS.update({"BoaviztaCloudServer": BoaviztaCloudServer, "GenAIModel": GenAIModel, "GenAIJob": GenAIJob,
                     "VideoStreaming": VideoStreaming, "VideoStreamingJob": VideoStreamingJob,
                     "WebApplication": WebApplication, "WebApplicationJob": WebApplicationJob})
    return _CLS[name]


def Q(m, unit):
    return ["q", float(m), unit]


def H(vals, start="2025-01-01 00:00", unit="dimensionless"):
    return ["h", [float(v) for v in vals], start, unit]


def value_to_spec(v):
    """Spec of a library value (used to read class defaults)."""
    if isinstance(v, EmptyExplainableObject):
        return ["e"]
    if hasattr(v.value, "magnitude"):
        return ["q", float(v.value.magnitude), str(v.value.units)]
    if hasattr(v.value, "zone"):
        return ["tz", v.value.zone]
    return ["c", v.value]


def defaults_spec(cls_name):
    return {k: value_to_spec(v) for k, v in get_cls(cls_name).default_values().items()}


def mkval(v):
    t = v[0]
    if t == "q":
        return SourceValue(v[1] * u(v[2]))
    if t == "e":
        return EmptyExplainableObject()
    if t == "c":
        return SourceObject(v[1])
    if t == "tz":
        return SourceObject(pytz.timezone(v[1]))
    if t == "h":
        fmt = "%Y-%m-%d %H:%M"
        return SourceHourlyValues(create_hourly_usage_df_from_list(list(v[1]), datetime.strptime(v[2], fmt), u(v[3])))
    raise ValueError(f"not a value spec: {v}")


class Model:
    """A live model: real objects by name."""

    def __init__(self, world, objs, ranks):
        self.world = world
        self.objs = objs
        self.ranks = ranks
        self.system = objs.get(world.get("system"))
        self.sim = None            # last simulation (ModelingUpdate) if any
        self.extra = {}

    def reachable_objs(self):
        return [self.system] + list(self.system.all_linked_objects)


def new_world(name, system="sys"):
    return {"name": name, "system": system, "objects": {}}


def add(w, name, cls, **kw):
    d = defaults_spec(cls) if hasattr(get_cls(cls), "default_values") else {}
    d.update(kw)
    w["objects"][name] = {"cls": cls, "attrs": d}
    return w


def link(n):
    return ["link", n]


def lst(*names):
    return ["list", list(names)]


def reachable(w, root=None, with_installed_services=True):
    """Forward closure (by links and lists) of the system, in discovery order."""
    root = root or w["system"]
    seen = []

    def go(n):
        if n in seen:
            return
        seen.append(n)
        for v in w["objects"][n]["attrs"].values():
            if v[0] == "link":
                go(v[1])
            elif v[0] == "list":
                for x in v[1]:
                    go(x)
    go(root)
    # a service is attached to its server from the service's side: a service installed on a reachable server is part
    # of the model even when no reachable job uses it (it still occupies the server)
    changed = with_installed_services
    while changed:
        changed = False
        for n, o in w["objects"].items():
            if n not in seen and o["cls"] in ("VideoStreaming", "WebApplication", "GenAIModel") \
                    and o["attrs"].get("server", [None, None])[1] in seen:
                go(n)
                changed = True
    return seen


def creation_order(w, names=None):
    names = list(w["objects"]) if names is None else names
    out = []
    for cls in ORDER:
        for n in w["objects"]:
            if w["objects"][n]["cls"] == cls and n in names:
                out.append(n)
    return out


def default_ranks(w, perms=None):
    """Rank table: position of each object inside its rank group, in creation order, optionally permuted.
    perms: {group: [positions...]} — perms[g][i] is the rank given to the i-th object (creation order) of g."""
    groups = {}
    for n in creation_order(w):
        groups.setdefault(RANK_GROUP[w["objects"][n]["cls"]], []).append(n)
    ranks = {}
    for g, members in groups.items():
        p = (perms or {}).get(g)
        for i, n in enumerate(members):
            ranks[n] = p[i] if p is not None and i < len(p) else i
    return ranks


def rank_groups(w):
    groups = {}
    for n in creation_order(w):
        groups.setdefault(RANK_GROUP[w["objects"][n]["cls"]], []).append(n)
    return groups


def build(w, perms=None, closure_only=False, order=None):
    """Instantiate the world. Raises whatever the library raises."""
    names = reachable(w) if closure_only else list(w["objects"])
    order = order or creation_order(w, names)
    ranks = default_ranks(w, perms)
    if boot.seams_installed():
        boot.set_ranks(ranks)
        boot.reset_ids()
    objs = {}
    for n in order:
        if n not in names:
            continue
        spec = w["objects"][n]
        kw = {}
        for a, v in spec["attrs"].items():
            if v[0] == "link":
                kw[a] = objs[v[1]]
            elif v[0] == "list":
                kw[a] = [objs[x] for x in v[1]]
            elif v[0] == "str":
                kw[a] = v[1]
            else:
                kw[a] = mkval(v)
        objs[n] = get_cls(spec["cls"])(n, **kw)
    return Model(w, objs, ranks)


# ------------------------------------------------------------------------------------------------ letters
class SpecRaise(Exception):
    """The reference model itself refuses the letter (e.g. list index out of range)."""


def _cow(w, obj):
    w2 = dict(w)
    w2["objects"] = dict(w["objects"])
    o = dict(w["objects"][obj])
    o["attrs"] = dict(o["attrs"])
    w2["objects"][obj] = o
    return w2


def list_op_spec(cur, op, args):
    """Python-list semantics on a list of names."""
    new = list(cur)
    try:
        if op == "append":
            new.append(args[0])
        elif op == "insert":
            new.insert(args[0], args[1])
        elif op == "extend":
            new.extend(args[0])
        elif op == "iadd":
            new += args[0]
        elif op == "iadd_self":
            new += new
        elif op == "imul":
            new *= args[0]
        elif op == "pop":
            new.pop(*args)
        elif op == "remove":
            new.remove(args[0])
        elif op == "remove_wrapper":   # remove the wrapper found at index args[0]
            del new[args[0]]
        elif op == "delitem":
            del new[args[0]]
        elif op == "delslice":
            del new[args[0]:args[1]]
        elif op == "setitem":
            new[args[0]] = args[1]
        elif op == "setslice":
            new[args[0]:args[1]] = args[2]
        elif op == "clear":
            new.clear()
        elif op in ("getslice", "copy", "len", "iter"):
            pass
        else:
            raise ValueError(op)
    except (IndexError, ValueError) as e:
        raise SpecRaise(type(e).__name__)
    return new


def apply_spec(w, e):
    """Reference semantics of a letter: returns the new world (input world is not modified)."""
    k = e[0]
    if k == "set":
        w2 = _cow(w, e[1])
        w2["objects"][e[1]]["attrs"][e[2]] = e[3]
        return w2
    if k == "link":
        w2 = _cow(w, e[1])
        w2["objects"][e[1]]["attrs"][e[2]] = ["link", e[3]]
        return w2
    if k == "list":
        w2 = _cow(w, e[1])
        w2["objects"][e[1]]["attrs"][e[2]] = ["list", list(e[3])]
        return w2
    if k == "lop":
        cur = w["objects"][e[1]]["attrs"][e[2]][1]
        new = list_op_spec(cur, e[3], e[4])
        w2 = _cow(w, e[1])
        w2["objects"][e[1]]["attrs"][e[2]] = ["list", new]
        return w2
    if k == "multi":
        for s in e[1]:
            w = apply_spec(w, s)
        return w
    if k in ("recompute", "recompute_all", "json", "sim", "on", "off", "read", "noop"):
        return w
    raise ValueError(f"unknown letter {e}")


def _new_value_live(m, s):
    if s[0] == "set":
        return mkval(s[3])
    if s[0] == "link":
        return m.objs[s[3]]
    if s[0] == "list":
        return [m.objs[x] for x in s[3]]
    raise ValueError(s)


def changes_live(m, letters):
    ch = []
    for s in letters:
        cur = getattr(m.objs[s[1]], s[2])
        ch.append([cur, _new_value_live(m, s)])
    return ch


def parse_date(d):
    """'YYYY-mm-dd HH:MM' + optional ' UTC' / ' naive' suffix."""
    fmt = "%Y-%m-%d %H:%M"
    if d.endswith(" naive"):
        return datetime.strptime(d[:-6], fmt)
    if d.endswith(" UTC"):
        d = d[:-4]
    return pytz.utc.localize(datetime.strptime(d, fmt))


def apply_live(m, e):
    """Real semantics of a letter on the live model. Raises whatever the library raises."""
    k = e[0]
    if k == "set":
        setattr(m.objs[e[1]], e[2], mkval(e[3]))
    elif k == "link":
        setattr(m.objs[e[1]], e[2], m.objs[e[3]])
    elif k == "list":
        setattr(m.objs[e[1]], e[2], [m.objs[x] for x in e[3]])
    elif k == "lop":
        live_list_op(m, e[1], e[2], e[3], e[4])
    elif k == "multi":
        ModelingUpdate(changes_live(m, e[1]))
    elif k == "sim":
        m.sim = None
        m.sim = ModelingUpdate(changes_live(m, e[1]), parse_date(e[2]))
    elif k == "on":
        m.sim.set_updated_values()
    elif k == "off":
        m.sim.reset_values()
    elif k == "recompute":
        m.objs[e[1]].compute_calculated_attributes()
    elif k == "recompute_all":
        s = m.system
        s.launch_mod_objs_computation_chain(s.mod_objs_computation_chain[1:])
        s.compute_calculated_attributes()
    elif k == "noop":
        pass
    else:
        raise ValueError(f"unknown letter {e}")


def live_list_op(m, obj, attr, op, args):
    o = m.objs[obj]
    L = getattr(o, attr)
    g = lambda n: m.objs[n]
    if op == "append":
        L.append(g(args[0]))
    elif op == "insert":
        L.insert(args[0], g(args[1]))
    elif op == "extend":
        L.extend([g(x) for x in args[0]])
    elif op == "iadd":
        # the real augmented assignment: o.attr += [...]  (getattr, __iadd__, setattr)
        L += [g(x) for x in args[0]]
        setattr(o, attr, L)
    elif op == "iadd_self":
        L += L
        setattr(o, attr, L)
    elif op == "imul":
        L *= args[0]
        setattr(o, attr, L)
    elif op == "pop":
        L.pop(*args)
    elif op == "remove":
        L.remove(g(args[0]))
    elif op == "remove_wrapper":
        L.remove(list.__getitem__(L, args[0]))
    elif op == "delitem":
        del L[args[0]]
    elif op == "delslice":
        del L[args[0]:args[1]]
    elif op == "setitem":
        L[args[0]] = g(args[1])
    elif op == "setslice":
        L[args[0]:args[1]] = [g(x) for x in args[2]]
    elif op == "clear":
        L.clear()
    elif op == "getslice":
        _ = L[args[0]:args[1]]
    elif op == "copy":
        _ = copy.copy(L)
    elif op == "len":
        _ = len(L)
    elif op == "iter":
        _ = [x for x in L]
    else:
        raise ValueError(op)


def canon_world(w):
    """Canonical JSON of the part of the world that matters (all objects: spares can be linked later)."""
    return json.dumps({"system": w["system"], "objects": w["objects"]}, sort_keys=True)


# ------------------------------------------------------------------------------------------------ world families
def _std_storage(w, name, **kw):
    d = dict(data_storage_duration=Q(3, "hour"), data_replication_factor=Q(2, "dimensionless"),
             storage_capacity=Q(1, "terabyte"), base_storage_need=Q(0, "terabyte"), fixed_nb_of_instances=["e"])
    d.update(kw)
    add(w, name, "Storage", **d)


def _up(w, name, uj, nw, c, devs, vals, start):
    w["objects"][name] = {"cls": "UsagePattern", "attrs": {
        "usage_journey": link(uj), "devices": lst(*devs), "network": link(nw), "country": link(c),
        "hourly_usage_journey_starts": H(vals, start)}}


def _country(w, name, short, intensity, zone):
    w["objects"][name] = {"cls": "Country", "attrs": {
        "short_name": ["str", short], "average_carbon_intensity": Q(intensity, "gram / kilowatt_hour"),
        "timezone": ["tz", zone]}}


def W0():
    """Minimal: one of everything."""
    w = new_world("W0")
    _std_storage(w, "st")
    add(w, "sv", "Server", storage=link("st"))
    add(w, "j1", "Job", server=link("sv"), request_duration=Q(90, "minute"))
    add(w, "s1", "UsageJourneyStep", user_time_spent=Q(20, "minute"), jobs=lst("j1"))
    add(w, "uj", "UsageJourney", uj_steps=lst("s1"))
    add(w, "nw", "Network")
    _country(w, "c", "C", 100, "Europe/Paris")
    add(w, "d", "Device")
    _up(w, "up", "uj", "nw", "c", ["d"], [1, 2, 0, 3, 5, 1], "2025-01-01 00:00")
    w["objects"]["sys"] = {"cls": "System", "attrs": {"usage_patterns": lst("up")}}
    return w


def W1():
    """Shared journey: up, up2 share journey uj=[s1:[j1], s2:[j2, j1]]; both jobs on sv/st; shared network,
    country, device; windows overlap partially. Spares: sv_b/st_b, st_c, j3, s3, uj_b, nw_b, c_b, d_b."""
    w = new_world("W1")
    for s in ("st", "st_b", "st_c"):
        _std_storage(w, s)
    add(w, "sv", "Server", storage=link("st"))
    add(w, "sv_b", "Server", storage=link("st_b"), ram=Q(64, "gigabyte"),
        average_carbon_intensity=Q(300, "gram / kilowatt_hour"))
    add(w, "j1", "Job", server=link("sv"), request_duration=Q(90, "minute"))
    add(w, "j2", "Job", server=link("sv"), data_transferred=Q(0.3, "megabyte"))
    add(w, "j3", "Job", server=link("sv_b"), data_stored=Q(33.3, "kilobyte"))
    add(w, "j_idle", "Job", server=link("sv"), ram_needed=Q(70, "megabyte"))     # attached to a used server, used by no step
    add(w, "s1", "UsageJourneyStep", user_time_spent=Q(20, "minute"), jobs=lst("j1"))
    add(w, "s2", "UsageJourneyStep", user_time_spent=Q(70, "minute"), jobs=lst("j2", "j1"))
    add(w, "s3", "UsageJourneyStep", user_time_spent=Q(5, "minute"), jobs=lst("j3"))
    add(w, "s0", "UsageJourneyStep", user_time_spent=Q(2, "minute"), jobs=lst())     # a step without any job
    add(w, "uj", "UsageJourney", uj_steps=lst("s1", "s2", "s0"))
    add(w, "uj_b", "UsageJourney", uj_steps=lst("s3"))
    add(w, "nw", "Network")
    add(w, "nw_b", "Network", bandwidth_energy_intensity=Q(0.2, "kilowatt_hour / gigabyte"))
    _country(w, "c", "C", 100, "Europe/Paris")
    _country(w, "c_b", "CB", 400, "America/New_York")
    _country(w, "c_s", "CS", 250, "Europe/Paris")      # same zone as c, another intensity
    add(w, "d", "Device")
    add(w, "d_b", "Device", power=Q(10, "watt"))
    _up(w, "up", "uj", "nw", "c", ["d"], [1, 2, 0, 3, 5, 1], "2025-01-01 00:00")
    _up(w, "up2", "uj", "nw", "c", ["d"], [4, 0, 2, 3], "2025-01-01 02:00")
    w["objects"]["sys"] = {"cls": "System", "attrs": {"usage_patterns": lst("up", "up2")}}
    return w


def W2():
    """Shared job, separate journeys: up -> uj_a[s_a[j1]], up2 -> uj_b[s_b[j1, j2]]; different networks,
    countries / time zones, disjoint time windows."""
    w = new_world("W2")
    for s in ("st", "st_b"):
        _std_storage(w, s)
    # on-premise WITHOUT a fixed count: the number of instances is the ceiling of the peak, a constant that depends on
    # every hour of the load (the branch of ServerBase.on_premise_update_nb_of_instances no other world reaches)
    add(w, "sv", "Server", storage=link("st"), server_type=["c", "on-premise"])
    add(w, "sv_b", "Server", storage=link("st_b"), compute=Q(16, "cpu_core"))
    add(w, "j1", "Job", server=link("sv"), request_duration=Q(61, "minute"))
    add(w, "j2", "Job", server=link("sv"), data_transferred=Q(0.3, "megabyte"), data_stored=Q(33.3, "kilobyte"))
    add(w, "s_a", "UsageJourneyStep", user_time_spent=Q(59, "minute"), jobs=lst("j1"))
    add(w, "s_b", "UsageJourneyStep", user_time_spent=Q(125, "minute"), jobs=lst("j1", "j2"))
    add(w, "uj_a", "UsageJourney", uj_steps=lst("s_a"))
    add(w, "uj_b", "UsageJourney", uj_steps=lst("s_b"))
    add(w, "nw", "Network")
    add(w, "nw_b", "Network", bandwidth_energy_intensity=Q(0.2, "kilowatt_hour / gigabyte"))
    _country(w, "c", "C", 100, "Europe/Paris")
    _country(w, "c_b", "CB", 400, "America/New_York")
    add(w, "d", "Device")
    add(w, "d_b", "Device", power=Q(10, "watt"))
    _up(w, "up", "uj_a", "nw", "c", ["d"], [1, 2, 0, 3], "2025-01-01 00:00")
    _up(w, "up2", "uj_b", "nw_b", "c_b", ["d", "d_b"], [4, 0, 2], "2025-01-02 06:00")
    w["objects"]["sys"] = {"cls": "System", "attrs": {"usage_patterns": lst("up", "up2")}}
    return w


def W3():
    """Two servers (autoscaling + on-premise with fixed instances), two storages, a writing and a deleting job,
    non-zero base storage; each usage pattern has its own journey and its own jobs (no job is shared between
    patterns: the topology in which the dict-entry id sharing defect cannot fire)."""
    w = new_world("W3")
    _std_storage(w, "st", base_storage_need=Q(0.001, "terabyte"))
    _std_storage(w, "st_b", data_storage_duration=Q(2, "hour"), fixed_nb_of_instances=Q(2, "dimensionless"))
    _std_storage(w, "st_c")
    add(w, "sv", "Server", storage=link("st"))
    add(w, "sv_b", "Server", storage=link("st_b"), server_type=["c", "on-premise"],
        fixed_nb_of_instances=Q(3, "dimensionless"), average_carbon_intensity=Q(300, "gram / kilowatt_hour"))
    add(w, "sv_c", "Server", storage=link("st_c"), server_type=["c", "serverless"])
    add(w, "j1", "Job", server=link("sv"), request_duration=Q(30, "minute"))
    add(w, "j2", "Job", server=link("sv"), data_stored=Q(-20, "kilobyte"), data_transferred=Q(0.3, "megabyte"))
    # exactly one hour: sits on the round-up-to-full-hours boundary (unit re-expressions must not cross it)
    add(w, "j3", "Job", server=link("sv_b"), data_stored=Q(33.3, "kilobyte"), request_duration=Q(1, "hour"))
    add(w, "j4", "Job", server=link("sv_c"))
    add(w, "j_idle", "Job", server=link("sv_b"), ram_needed=Q(70, "megabyte"))   # attached to a used server, used by no step
    add(w, "s1", "UsageJourneyStep", user_time_spent=Q(20, "minute"), jobs=lst("j1", "j2"))
    add(w, "s2", "UsageJourneyStep", user_time_spent=Q(61, "minute"), jobs=lst("j3"))
    add(w, "s3", "UsageJourneyStep", user_time_spent=Q(5, "minute"), jobs=lst("j4"))
    add(w, "uj", "UsageJourney", uj_steps=lst("s1"))
    add(w, "uj_b", "UsageJourney", uj_steps=lst("s2"))
    add(w, "uj_c", "UsageJourney", uj_steps=lst("s3"))
    add(w, "nw", "Network")
    add(w, "nw_b", "Network", bandwidth_energy_intensity=Q(0.2, "kilowatt_hour / gigabyte"))
    _country(w, "c", "C", 100, "Europe/Paris")
    _country(w, "c_b", "CB", 400, "Asia/Kolkata")
    add(w, "d", "Device")
    add(w, "d_b", "Device", power=Q(10, "watt"))
    _up(w, "up", "uj", "nw", "c", ["d"], [1, 2, 0, 3, 5, 1], "2025-01-01 00:00")
    _up(w, "up2", "uj_b", "nw_b", "c_b", ["d_b"], [4, 0, 2, 3], "2025-01-01 03:00")
    _up(w, "up3", "uj_c", "nw", "c", ["d", "d_b"], [2, 2, 7], "2025-01-01 01:00")
    w["objects"]["sys"] = {"cls": "System", "attrs": {"usage_patterns": lst("up", "up2", "up3")}}
    return w


def W4():
    """Builders: VideoStreaming and WebApplication on a Server, GenAIModel on a GPUServer, a BoaviztaCloudServer,
    mixed with plain jobs on the same servers."""
    w = new_world("W4")
    for s in ("st", "st_g", "st_c"):
        _std_storage(w, s)
    add(w, "sv", "Server", storage=link("st"))
    add(w, "gsv", "GPUServer", storage=link("st_g"), compute=Q(16, "gpu"))
    add(w, "csv", "BoaviztaCloudServer", storage=link("st_c"))
    add(w, "vs", "VideoStreaming", server=link("sv"))
    add(w, "wa", "WebApplication", server=link("sv"))
    add(w, "gm", "GenAIModel", server=link("gsv"))
    add(w, "jp", "Job", server=link("sv"), request_duration=Q(90, "minute"))
    add(w, "jc", "Job", server=link("csv"), data_transferred=Q(0.3, "megabyte"))
    add(w, "jv", "VideoStreamingJob", service=link("vs"), video_duration=Q(20, "minute"))
    add(w, "jw", "WebApplicationJob", service=link("wa"))
    add(w, "jg", "GenAIJob", service=link("gm"), output_token_count=Q(500, "dimensionless"))
    add(w, "s1", "UsageJourneyStep", user_time_spent=Q(20, "minute"), jobs=lst("jp", "jv"))
    add(w, "s2", "UsageJourneyStep", user_time_spent=Q(70, "minute"), jobs=lst("jw", "jg", "jc"))
    add(w, "uj", "UsageJourney", uj_steps=lst("s1", "s2"))
    add(w, "nw", "Network")
    _country(w, "c", "C", 100, "Europe/Paris")
    add(w, "d", "Device")
    _up(w, "up", "uj", "nw", "c", ["d"], [1, 2, 0, 3], "2025-01-01 00:00")
    w["objects"]["sys"] = {"cls": "System", "attrs": {"usage_patterns": lst("up")}}
    return w


def W16():
    """W1 + a second, independent system (sysB) in the same universe: for link-consistency exploration."""
    w = W1()
    w["name"] = "W16"
    _std_storage(w, "st_x")
    add(w, "sv_x", "Server", storage=link("st_x"))
    add(w, "j_x", "Job", server=link("sv_x"))
    add(w, "s_x", "UsageJourneyStep", user_time_spent=Q(10, "minute"), jobs=lst("j_x"))
    add(w, "uj_x", "UsageJourney", uj_steps=lst("s_x"))
    add(w, "nw_x", "Network")
    _country(w, "c_x", "CX", 200, "Europe/Paris")
    add(w, "d_x", "Device")
    _up(w, "up_x", "uj_x", "nw_x", "c_x", ["d_x"], [1, 1, 2], "2025-01-01 00:00")
    w["objects"]["sysB"] = {"cls": "System", "attrs": {"usage_patterns": lst("up_x")}}
    return w


def W1f():
    """W1 with fractional hourly starts that are exactly representable at 3 decimals (for the JSON round trip)."""
    w = W1()
    w["name"] = "W1f"
    w["objects"]["up"]["attrs"]["hourly_usage_journey_starts"] = H([1.125, 2.5, 0.0, 3.375, 5.25, 1.001], "2025-01-01 00:00")
    w["objects"]["up2"]["attrs"]["hourly_usage_journey_starts"] = H([4.75, 0.5, 2.002, 3.0], "2025-01-01 02:00")
    return w


def W1c():
    """W1 where the two usage patterns (shared journey, jobs and network) are in two countries / time zones."""
    w = W1()
    w["name"] = "W1c"
    w["objects"]["up2"]["attrs"]["country"] = link("c_b")
    w["objects"]["up2"]["attrs"]["devices"] = lst("d", "d_b")
    return w


FAMILIES = {"W0": W0, "W1": W1, "W2": W2, "W3": W3, "W4": W4, "W16": W16, "W1f": W1f, "W1c": W1c}


def family(name):
    return copy.deepcopy(FAMILIES[name]())
