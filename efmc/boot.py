"""Process bootstrap: import the library from the *current working tree* of the repository and install
the two seams the explorer owns (object ids, set iteration order).

Nothing is copied or installed: `sys.path[0]` is the repository, bytecode writing is off, so every check
always executes the sources that are in /repo at the moment it is started.
"""
import itertools
import logging
import os
import sys
import warnings

REPO = os.environ.get("EFMC_REPO", "/repo")
GUARD = "EFOOTPRINT_VERIF"

sys.dont_write_bytecode = True
os.environ.setdefault("PYTHONDONTWRITEBYTECODE", "1")
os.environ[GUARD] = "1"
if REPO not in sys.path:
    sys.path.insert(0, REPO)
logging.disable(logging.CRITICAL)
warnings.filterwarnings("ignore")

_booted = {"core": False, "all": False, "seams": False}

RANK = {}          # object name -> small int ; decided by the schedule
DEFAULT_RANK = 7
_id_counter = itertools.count()


class _FakeUuid:
    def __init__(self, n):
        self.n = n

    def __str__(self):
        return f"{self.n:06d}-0000-0000"


class _FakeUuidModule:
    @staticmethod
    def uuid4():
        return _FakeUuid(next(_id_counter))


def reset_ids():
    global _id_counter
    _id_counter = itertools.count()


def core():
    """Import core classes (no boaviztapi / ecologits): ~1.5 s."""
    if not _booted["core"]:
        import efootprint.core.system  # noqa: F401
        import efootprint.abstract_modeling_classes.modeling_update  # noqa: F401
        _booted["core"] = True


def all_classes():
    """Import every class, including builders: ~4 s."""
    core()
    if not _booted["all"]:
        import efootprint.core.all_classes_in_order  # noqa: F401
        _booted["all"] = True


def install_seams():
    """Replace uuid4 by a counter and ModelingObject.__hash__ by the schedule's rank table.

    With distinct small int hashes (< 8) CPython iterates a small set in ascending hash order, so the
    rank table *is* the iteration order of every set of modeling objects (verified by selftest)."""
    core()
    if _booted["seams"]:
        return
    from efootprint.abstract_modeling_classes import modeling_object as mo

    mo.uuid = _FakeUuidModule
    mo.ModelingObject.__hash__ = lambda self: RANK.get(self.name, DEFAULT_RANK)
    _booted["seams"] = True


def seams_installed():
    return _booted["seams"]


def set_ranks(ranks):
    RANK.clear()
    RANK.update(ranks)


def warm_up():
    """First ModelingUpdate of a process costs ~2.4 s (pint/pandas caches): pay it once before forking."""
    from efmc import world as W
    w = W.W0()
    m = W.build(w)
    W.apply_live(m, ["set", "j1", "data_transferred", ["q", 300.0, "kilobyte"]])
