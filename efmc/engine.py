"""Parallel execution of check tasks on a persistent fork pool + level-synchronous BFS over edit histories.

A *task* is a JSON-able dict; a check module exposes ``run_task(task) -> result`` (a JSON-able dict) that executes
the task on the real library code and evaluates the monitors.  Workers are forked after the library has been
imported and warmed up; every task runs under an alarm so that a non-terminating library loop is reported, not
waited for.
"""
import multiprocessing as mp
import os
import random
import signal
import time
import traceback

from efmc import report

NPROC = int(os.environ.get("EFMC_PROCS", str(min(16, os.cpu_count() or 1))))
TASK_TIMEOUT = int(os.environ.get("EFMC_TASK_TIMEOUT", "120"))

_pool = None
_fn = None


class TaskTimeout(BaseException):
    pass


def _alarm(signum, frame):
    raise TaskTimeout()


def _guarded(task):
    signal.signal(signal.SIGALRM, _alarm)
    signal.alarm(task.get("_timeout", TASK_TIMEOUT))
    try:
        return _fn(task)
    except TaskTimeout:
        return {"_timeout": True, "task": task}
    except Exception as e:  # harness bug or unexpected library failure outside a monitored call
        return {"_crash": f"{type(e).__name__}: {e}", "_tb": traceback.format_exc()[-3000:], "task": task}
    finally:
        signal.alarm(0)


def start(fn, warm=None):
    """Create the pool (fork) after imports; `fn` is the module-level task function."""
    global _pool, _fn
    _fn = fn
    if warm is not None:
        warm()
    if NPROC > 1 and _pool is None:
        ctx = mp.get_context("fork")
        _pool = ctx.Pool(NPROC)
    return _pool


def stop():
    global _pool
    if _pool is not None:
        _pool.close()
        _pool.join()
        _pool = None


def pmap(tasks, chunksize=None):
    """Run tasks (order of results == order of tasks). VERIF_SEED permutes the dispatch order only."""
    n = len(tasks)
    if n == 0:
        return []
    order = list(range(n))
    random.Random(report.seed()).shuffle(order)
    shuffled = [tasks[i] for i in order]
    if _pool is None:
        res = [_guarded(t) for t in shuffled]
    else:
        cs = chunksize or max(1, min(8, n // (NPROC * 4) or 1))
        res = _pool.map(_guarded, shuffled, chunksize=cs)
    out = [None] * n
    for i, r in zip(order, res):
        out[i] = r
    return out


class CrashError(Exception):
    pass


def check_results(results, run, allow_timeouts=False):
    """Harness crashes are hard errors (exit 2 upstream); timeouts are returned for the check to classify."""
    timeouts = []
    for r in results:
        if r is None:
            continue
        if "_crash" in r:
            raise CrashError(r["_crash"] + "\n" + r.get("_tb", "") + "\ntask=" + repr(r.get("task"))[:2000])
        if r.get("_timeout"):
            timeouts.append(r)
    return timeouts


# ---------------------------------------------------------------------------------------------------- BFS
def bfs(roots, alphabet_of, depth, run, max_states=None, time_budget=None, merge=True, expand_filter=None,
        on_result=None):
    """Level-synchronous BFS over histories.

    roots: list of root nodes {"world": family name, "perms": {...}, "history": []}
    alphabet_of(node_info) -> list of letters, where node_info = {"world_state": current world dict (spec), ...}
        is returned by the worker for each explored node (result["next"]).
    Each task = node + letter; the worker replays history, applies letter, monitors, and returns
        {"outcome": str, "key": state key or None, "next": {...info for alphabet...} or None,
         "violations": [{"sig":..., "detail":...}], "expand": bool}
    Returns stats dict.
    """
    t0 = time.time()
    seen = set()
    stats = {"states": 0, "transitions": 0, "levels": [], "capped": None, "outcomes": {}, "value_digests": set(),
             "timeouts": 0, "samples": []}
    frontier = []
    for r in roots:
        frontier.append(r)
    # level 0: evaluate roots themselves (letter None)
    tasks = [dict(r, letter=None) for r in frontier]
    results = pmap(tasks)
    check_results(results, run)
    nodes = []
    for t, res in zip(tasks, results):
        _absorb(t, res, run, stats, on_result)
        if res.get("key") is not None and (res["key"] not in seen or not merge):
            seen.add(res["key"])
            nodes.append((t, res))
    stats["levels"].append({"depth": 0, "nodes": len(nodes), "transitions": 0})
    for d in range(1, depth + 1):
        tasks = []
        for t, res in nodes:
            if not res.get("expand", True):
                continue
            node = {"world": t["world"], "perms": t.get("perms"), "history": t["history"] + ([t["letter"]] if t["letter"] is not None else [])}
            for k in t:
                if k not in node and k not in ("letter",):
                    node[k] = t[k]
            for letter in alphabet_of(node, res.get("next") or {}, d):
                tasks.append(dict(node, letter=letter))
        if max_states is not None and stats["transitions"] + len(tasks) > max_states:
            stats["capped"] = {"reason": "max_transitions", "at_depth": d, "cap": max_states,
                               "would_be": stats["transitions"] + len(tasks)}
            tasks = tasks[:max(0, max_states - stats["transitions"])]
        if not tasks:
            break
        results = pmap(tasks)
        check_results(results, run)
        nodes = []
        for t, res in zip(tasks, results):
            stats["transitions"] += 1
            _absorb(t, res, run, stats, on_result)
            k = res.get("key")
            if k is not None and (k not in seen or not merge):
                seen.add(k)
                nodes.append((t, res))
        stats["levels"].append({"depth": d, "nodes": len(nodes), "transitions": len(tasks)})
        if time_budget is not None and time.time() - t0 > time_budget and d < depth:
            stats["capped"] = {"reason": "time_budget", "completed_depth": d, "budget_s": time_budget}
            break
    stats["states"] = len(seen)
    stats["value_digests"] = len(stats["value_digests"])
    stats.pop("_sampled", None)
    return stats


def _absorb(task, res, run, stats, on_result):
    if res.get("_timeout"):
        stats["timeouts"] += 1
        run.violation({"clause": "timeout", "letter": letter_class(task.get("letter"))},
                      {"task": task, "detail": "execution did not terminate within the alarm", "size": len(task.get("history", []))})
        return
    oc = res.get("outcome", "?")
    stats["outcomes"][oc] = stats["outcomes"].get(oc, 0) + 1
    if res.get("vdigest"):
        stats["value_digests"].add(res["vdigest"])
    for v in res.get("violations", []):
        run.violation(v["sig"], {"task": task, "detail": v.get("detail"), "size": len(task.get("history", [])) + 1})
    for c, n in (res.get("counters") or {}).items():
        run.count(c, n)
    depth_of_task = len(task.get("history", [])) + (1 if task.get("letter") is not None else 0)
    if task.get("letter") is not None and stats.setdefault("_sampled", {}).get(depth_of_task, 0) < 2:
        stats["_sampled"][depth_of_task] = stats["_sampled"].get(depth_of_task, 0) + 1
        stats["samples"].append({"world": task["world"] if isinstance(task["world"], str) else task["world"].get("name"),
                                 "perms": task.get("perms"), "history": task.get("history"), "letter": task.get("letter"),
                                 "outcome": oc})
    if on_result is not None:
        on_result(task, res)


def letter_class(letter, world=None):
    """Class-level rendering of a letter: 'set Job.request_duration', 'list System.usage_patterns', ..."""
    if letter is None:
        return "build"
    k = letter[0]
    if k in ("set", "link", "list", "lop"):
        cls = None
        if world is not None:
            cls = world["objects"].get(letter[1], {}).get("cls")
        base = f"{k} {cls or letter[1]}.{letter[2]}"
        if k == "lop":
            base += f" {letter[3]}"
        return base
    if k == "multi":
        return "multi[" + ", ".join(letter_class(s, world) for s in letter[1]) + "]"
    if k == "sim":
        return "sim[" + ", ".join(letter_class(s, world) for s in letter[1]) + "]"
    return k
