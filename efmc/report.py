"""Run bookkeeping: violations (de-duplicated by structural signature), known findings, replay files, evidence."""
import hashlib
import json
import os
import subprocess
import sys
import time

VERIF = os.path.dirname(os.path.dirname(os.path.abspath(__file__)))
KNOWN_FILE = os.path.join(VERIF, "known_findings.json")
_OUT = os.environ.get("EFMC_OUT", VERIF)     # seed trials redirect evidence and replays away from /verif
EVIDENCE_DIR = os.path.join(_OUT, "evidence")
REPLAY_DIR = os.path.join(_OUT, "replays")


def seed():
    try:
        return int(os.environ.get("VERIF_SEED", "0"))
    except ValueError:
        return 0


def tree_under_test():
    """Which tree the check ran against: path, HEAD commit and whether the working tree had uncommitted changes."""
    repo = os.environ.get("EFMC_REPO", "/repo")
    out = {"path": repo}
    try:
        out["head"] = subprocess.run(["git", "-C", repo, "rev-parse", "--short", "HEAD"], capture_output=True,
                                     text=True, timeout=20).stdout.strip()
        out["uncommitted_changes"] = bool(subprocess.run(
            ["git", "-C", repo, "status", "--porcelain", "--untracked-files=no"], capture_output=True, text=True,
            timeout=20).stdout.strip())
    except Exception as e:  # noqa
        out["head"] = f"unknown ({type(e).__name__})"
    return out


def jsonable(x):
    if isinstance(x, dict):
        return {str(k): jsonable(v) for k, v in x.items()}
    if isinstance(x, (list, tuple, set)):
        return [jsonable(v) for v in x]
    if isinstance(x, (str, int, float, bool)) or x is None:
        if isinstance(x, float) and (x != x or x in (float("inf"), float("-inf"))):
            return repr(x)
        return x
    try:
        import numpy as np
        if isinstance(x, np.generic):
            return jsonable(x.item())
        if isinstance(x, np.ndarray):
            return jsonable(x.tolist())
    except Exception:
        pass
    return str(x)


def load_known():
    if not os.path.exists(KNOWN_FILE):
        return []
    with open(KNOWN_FILE) as f:
        return json.load(f).get("findings", [])


def sig_matches(match, sig):
    """Every key of the entry's match must agree with the violation's signature.
    A list in the entry means 'one of'; a string starting with '~' means 'substring of the signature value'."""
    for k, want in match.items():
        have = sig.get(k)
        if isinstance(want, list):
            if have not in want:
                return False
        elif isinstance(want, str) and want.startswith("~"):
            if have is None or want[1:] not in str(have):
                return False
        elif have != want:
            return False
    return True


class Run:
    def __init__(self, prop, tier, check_module=None):
        self.prop = prop
        self.tier = tier
        self.check_module = check_module or f"checks.{prop.lower()}"
        self.t0 = time.time()
        self.known = [k for k in load_known() if k.get("property") == prop and k.get("status", "open") == "open"]
        self.by_sig = {}       # sig key -> {"sig", "count", "first": record}
        self.notes = {}
        self.counters = {}

    # ------------------------------------------------------------------ collecting
    def count(self, name, n=1):
        self.counters[name] = self.counters.get(name, 0) + n

    def violation(self, sig, record):
        """sig: flat dict of strings (structural signature); record: everything needed to replay (task) + details."""
        key = json.dumps(jsonable(sig), sort_keys=True)
        e = self.by_sig.get(key)
        size = record.get("size", 0)
        if e is None:
            self.by_sig[key] = {"sig": sig, "count": 1, "first": record, "size": size}
        else:
            e["count"] += 1
            if size < e["size"] or (size == e["size"] and json.dumps(jsonable(record.get("task")), sort_keys=True)
                                    < json.dumps(jsonable(e["first"].get("task")), sort_keys=True)):
                e["first"], e["size"] = record, size

    def known_entry(self, sig):
        for k in self.known:
            if sig_matches(k.get("match", {}), sig):
                return k
        return None

    # ------------------------------------------------------------------ finishing
    def _write_replay(self, sig, record):
        d = os.path.join(REPLAY_DIR, self.prop)
        os.makedirs(d, exist_ok=True)
        body = {"property": self.prop, "check_module": self.check_module, "signature": sig,
                "task": record.get("task"), "detail": record.get("detail"),
                "how_to_replay": f"cd /verif && ./run_check {self.prop} --replay <this file>"}
        blob = json.dumps(jsonable(body), indent=1, sort_keys=True)
        name = hashlib.sha1(json.dumps(jsonable({"s": sig, "t": record.get("task")}), sort_keys=True).encode()
                            ).hexdigest()[:12] + ".json"
        path = os.path.join(d, name)
        with open(path, "w") as f:
            f.write(blob)
        return path

    def _confirm_many(self, paths):
        """Replay each file twice in fresh processes (all replays run concurrently): returns {path: [out1, out2]}."""
        procs = []
        for path in paths:
            for _ in range(2):
                try:
                    p = subprocess.Popen([sys.executable, "-m", "efmc.replay", path, "--json"], cwd=VERIF,
                                         stdout=subprocess.PIPE, stderr=subprocess.DEVNULL, text=True,
                                         env=dict(os.environ, PYTHONPATH=VERIF, PYTHONHASHSEED="0"))
                    procs.append((path, p))
                except Exception as e:  # noqa
                    procs.append((path, None))
        outs = {path: [] for path in paths}
        for path, p in procs:
            if p is None:
                outs[path].append("<replay could not start>")
                continue
            try:
                out, _ = p.communicate(timeout=900)
                outs[path].append(out.strip().splitlines()[-1] if out.strip() else f"<no output rc={p.returncode}>")
            except Exception as e:  # noqa
                p.kill()
                outs[path].append(f"<replay failed: {e}>")
        return outs

    def finish(self, coverage, assumptions=None, level="model_checking", confirm=True):
        new, known_hits = [], {}
        for key, e in sorted(self.by_sig.items(), key=lambda kv: (kv[1]["size"], kv[0])):
            k = self.known_entry(e["sig"])
            if k is not None:
                h = known_hits.setdefault(k["id"], {"entry": k, "count": 0})
                h["count"] += e["count"]
            else:
                new.append(e)
        rc = 0
        for kid, h in sorted(known_hits.items()):
            print(f"KNOWN-FINDING: property={self.prop} {kid}: {h['entry'].get('what', '')} "
                  f"[{h['count']} occurrences in this run]")
        nondet = False
        reported = []
        # determinism is proved on the (at most) MAX_CONFIRM smallest counterexamples: each is replayed twice in fresh
        # processes and must give the same signature both times; a divergence is a hard error, never a VIOLATION
        max_confirm = int(os.environ.get("EFMC_MAX_CONFIRM", "3"))
        paths = {}
        for e in new:
            paths[id(e)] = self._write_replay(e["sig"], e["first"])
        to_confirm = [e for e in new if confirm and e["first"].get("task") is not None][:max_confirm]
        outs = self._confirm_many([paths[id(e)] for e in to_confirm]) if to_confirm else {}
        for e in new:
            path = paths[id(e)]
            if path in outs:
                want = json.dumps(jsonable(e["sig"]), sort_keys=True)
                got = []
                for o in outs[path]:
                    try:
                        got.append(want in [json.dumps(s_, sort_keys=True) for s_ in json.loads(o)["signatures"]])
                    except Exception:
                        got.append(None)
                if got != [True, True]:
                    nondet = True
                    print(f"NONDETERMINISM property={self.prop} replay={path} confirmations={outs[path]}")
                    continue
            print(f"VIOLATION property={self.prop} replay={path}")
            print(f"  signature={json.dumps(jsonable(e['sig']), sort_keys=True)} occurrences={e['count']}")
            reported.append({"signature": e["sig"], "occurrences": e["count"], "replay": path,
                             "replayed_twice": path in outs})
            rc = 1
        if nondet and rc == 0:
            rc = 2
        cov = dict(coverage)
        cov.update({k: v for k, v in self.counters.items() if k not in cov})
        cov["known_findings_matched"] = {kid: h["count"] for kid, h in known_hits.items()}
        cov["violation_signatures"] = reported
        if self.notes:
            cov["notes"] = self.notes
        cov["tree_under_test"] = tree_under_test()
        ev = {"property_id": self.prop, "tier": self.tier, "seed": seed(), "level": level,
              "coverage": jsonable(cov), "assumptions": assumptions or [],
              "wall_s": round(time.time() - self.t0, 2), "violations": len(reported)}
        os.makedirs(EVIDENCE_DIR, exist_ok=True)
        with open(os.path.join(EVIDENCE_DIR, f"{self.prop}.json"), "w") as f:
            json.dump(ev, f, indent=1, sort_keys=True)
        # evidence/<id>.json is rewritten by every run; a copy per tier is kept next to it
        by_tier = os.path.join(_OUT, "evidence_by_tier")
        os.makedirs(by_tier, exist_ok=True)
        with open(os.path.join(by_tier, f"{self.prop}.{self.tier}.json"), "w") as f:
            json.dump(ev, f, indent=1, sort_keys=True)
        st, tr = cov.get("states"), cov.get("transitions")
        print(f"{self.prop} {self.tier}: states={st} transitions={tr} violations={len(reported)} "
              f"known={sum(h['count'] for h in known_hits.values())} wall={ev['wall_s']}s exit={rc}")
        return rc
