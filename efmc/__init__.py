"""efmc — e-footprint model checker: bounded exhaustive exploration of the real library code."""
