"""Replay one recorded counterexample without the explorer:  python -m efmc.replay <file> [--json]

Builds the world, applies the recorded history with the real library, evaluates the one oracle of the check that
produced the file and prints what it observes.  Exit 1 if the violation is reproduced, 0 if not.
"""
import importlib
import json
import sys


def main(argv):
    path = argv[0]
    as_json = "--json" in argv
    with open(path) as f:
        rec = json.load(f)
    mod = importlib.import_module(rec["check_module"])
    if hasattr(mod, "prepare"):
        mod.prepare()
    res = mod.run_task(rec["task"])
    sigs = [v["sig"] for v in res.get("violations", [])]
    if res.get("_timeout"):
        sigs.append({"clause": "timeout"})
    want = rec.get("signature")
    reproduced = json.dumps(want, sort_keys=True) in [json.dumps(s, sort_keys=True) for s in sigs]
    if as_json:
        print(json.dumps({"signatures": sigs, "reproduced": reproduced}, sort_keys=True))
    else:
        print(f"property  : {rec['property']}")
        print(f"task      : {json.dumps(rec['task'])[:1500]}")
        print(f"expected  : {json.dumps(want, sort_keys=True)}")
        print(f"outcome   : {res.get('outcome')}")
        for v in res.get("violations", []):
            print(f"observed  : {json.dumps(v['sig'], sort_keys=True)}")
            d = v.get("detail")
            if d:
                print("   " + json.dumps(d, indent=1, default=str)[:3000].replace("\n", "\n   "))
        print("REPRODUCED" if reproduced else "NOT REPRODUCED")
    return 1 if reproduced else 0


if __name__ == "__main__":
    sys.exit(main(sys.argv[1:]))
