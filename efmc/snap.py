"""Observation of a live model: value / input / link / identity / graph snapshots and their comparison.

Pitfalls handled here (see DESIGN §3.5): ``ExplainableQuantity.__eq__`` raises on foreign types (never use ``==``
or ``in`` on library values: identity only); ``ObjectLinkedToModelingObj.id`` raises when detached; the
``__dict__`` of a ContextualModelingObjectAttribute is the wrapped object's.
"""
import hashlib

import numpy as np

from efmc import boot

boot.core()

from efootprint.abstract_modeling_classes.explainable_objects import (  # noqa: E402
    EmptyExplainableObject, ExplainableQuantity, ExplainableHourlyQuantities)
from efootprint.abstract_modeling_classes.explainable_object_dict import ExplainableObjectDict  # noqa: E402
from efootprint.abstract_modeling_classes.explainable_object_base_class import ExplainableObject  # noqa: E402
from efootprint.abstract_modeling_classes.contextual_modeling_object_attribute import (  # noqa: E402
    ContextualModelingObjectAttribute)
from efootprint.abstract_modeling_classes.list_linked_to_modeling_obj import ListLinkedToModelingObj  # noqa: E402
from efootprint.abstract_modeling_classes.modeling_object import ModelingObject  # noqa: E402
from efootprint.constants.units import u  # noqa: E402

RTOL = 1e-9
ATOL = 1e-12
LIBRARY_ROUNDING_QUANTUM = 1.0001e-4     # kg: System.update_total_footprint rounds to 4 decimals

_unit_cache = {}


def base_factor(unit):
    """(factor, base-unit string) such that magnitude*factor is the magnitude in base units."""
    key = str(unit)
    r = _unit_cache.get(key)
    if r is None:
        q = u.Quantity(1.0, unit).to_base_units()
        r = (float(q.magnitude), str(q.units))
        _unit_cache[key] = r
    return r


def unwrap(o):
    return o._value if isinstance(o, ContextualModelingObjectAttribute) else o


def key_name(k):
    return getattr(k, "name", k) if not isinstance(k, str) else k


def canon(v):
    """Canonical physical form of a library value (base units, UTC ns timestamps)."""
    if isinstance(v, EmptyExplainableObject):
        return ("E",)
    if isinstance(v, ExplainableQuantity):
        f, b = base_factor(v.value.units)
        return ("Q", b, float(v.value.magnitude) * f)
    if isinstance(v, ExplainableHourlyQuantities):
        f, b = base_factor(v.unit)
        idx = v.value.index
        aware = idx.tz is not None
        arr = np.asarray(v.value["value"].values._data, dtype=float) * f
        return ("H", b, aware, np.asarray(idx.asi8, dtype=np.int64), arr)
    if isinstance(v, ExplainableObjectDict):
        return ("D", tuple(sorted(((key_name(k), canon(x)) for k, x in v.items()), key=lambda t: t[0])))
    if isinstance(v, ExplainableObject):
        val = v.value
        if hasattr(val, "zone"):
            return ("O", "tz:" + val.zone)
        if isinstance(val, dict):
            return ("O", "dict:" + hashlib.md5(repr(sorted(val.keys())).encode()).hexdigest()[:8])
        return ("O", repr(val)[:80])
    if v is None:
        return ("N",)
    return ("?", type(v).__name__)


def close(a, b, rtol=RTOL, atol=ATOL):
    if a[0] != b[0]:
        return False
    t = a[0]
    if t in ("E", "N"):
        return True
    if t == "Q":
        return a[1] == b[1] and abs(a[2] - b[2]) <= atol + rtol * max(abs(a[2]), abs(b[2]))
    if t == "H":
        if a[1] != b[1] or a[2] != b[2] or len(a[3]) != len(b[3]):
            return False
        if not np.array_equal(a[3], b[3]):
            return False
        x, y = a[4], b[4]
        if np.isnan(x).any() or np.isnan(y).any():
            return bool(np.array_equal(np.isnan(x), np.isnan(y))) and bool(
                np.all(np.abs(np.nan_to_num(x) - np.nan_to_num(y)) <= atol + rtol * np.maximum(
                    np.abs(np.nan_to_num(x)), np.abs(np.nan_to_num(y)))))
        return bool(np.all(np.abs(x - y) <= atol + rtol * np.maximum(np.abs(x), np.abs(y))))
    if t == "D":
        if len(a[1]) != len(b[1]):
            return False
        return all(k1 == k2 and close(x, y, rtol, atol) for (k1, x), (k2, y) in zip(a[1], b[1]))
    return a == b


def render(c, maxlen=6):
    """Human/JSON friendly rendering of a canonical value."""
    t = c[0]
    if t == "Q":
        return f"{c[2]:.12g} {c[1]}"
    if t == "H":
        ts = [str(np.datetime64(int(x), "ns"))[:13] for x in c[3][:maxlen]]
        vals = [float(f"{x:.12g}") for x in c[4][:maxlen]]
        more = "" if len(c[3]) <= maxlen else f" …(+{len(c[3]) - maxlen})"
        return f"H[{c[1]}{' utc' if c[2] else ' naive'}] " + ", ".join(f"{t_}={v}" for t_, v in zip(ts, vals)) + more
    if t == "D":
        return "{" + "; ".join(f"{k}: {render(x, maxlen)}" for k, x in c[1]) + "}"
    if t == "E":
        return "EMPTY"
    return str(c[1:]) if len(c) > 1 else t


def digestible(c, nd=9):
    t = c[0]
    if t == "Q":
        return (t, c[1], float(f"{c[2]:.{nd}g}"))
    if t == "H":
        return (t, c[1], c[2], tuple(int(x) for x in c[3]), tuple(float(f"{x:.{nd}g}") for x in c[4]))
    if t == "D":
        return (t, tuple((k, digestible(x, nd)) for k, x in c[1]))
    return c


def digest(snapshot, nd=9):
    h = hashlib.sha1()
    for k in sorted(snapshot, key=repr):
        h.update(repr((k, digestible(snapshot[k], nd))).encode())
    return h.hexdigest()[:16]


# ---------------------------------------------------------------------------------------------- iteration helpers
def system_objects(system):
    """[system] + all linked objects, unwrapped, de-duplicated by python identity, in a stable order."""
    out, seen = [], set()
    for o in [system] + list(system.all_linked_objects):
        o = unwrap(o)
        if id(o) not in seen:
            seen.add(id(o))
            out.append(o)
    return out


SKIP_ATTRS = {"all_changes", "previous_change", "simulation", "name", "id", "trigger_modeling_updates",
              "contextual_modeling_obj_containers", "impact_url"}
SYSTEM_REF_DICTS = {"previous_total_energy_footprints_sum_over_period",
                    "previous_total_fabrication_footprints_sum_over_period",
                    "initial_total_energy_footprints_sum_over_period",
                    "initial_total_fabrication_footprints_sum_over_period"}


def held_values(objs, include_inputs=True, include_calculated=True):
    """Yield (obj, attr, key, value) for every ExplainableObject currently held (dict entries one by one)."""
    for o in objs:
        calc = set(o.calculated_attributes)
        for attr, val in list(o.__dict__.items()):
            if attr in SKIP_ATTRS or attr in SYSTEM_REF_DICTS:
                continue
            is_calc = attr in calc
            if (is_calc and not include_calculated) or (not is_calc and not include_inputs):
                continue
            if isinstance(val, ExplainableObjectDict):
                for k, x in val.items():
                    yield o, attr, k, x
            elif isinstance(val, ExplainableObject):
                yield o, attr, None, val


def value_snapshot(system, objs=None):
    """{(obj name, attr): canon} for every calculated attribute of every reachable object."""
    out = {}
    for o in (objs if objs is not None else system_objects(system)):
        for a in o.calculated_attributes:
            out[(o.name, a)] = canon(getattr(o, a))
    return out


def input_snapshot(objs):
    """{(obj name, attr): canon | ('link', name) | ('list', names) | str} for every non-calculated attribute."""
    out = {}
    for o in objs:
        calc = set(o.calculated_attributes)
        for attr, val in list(o.__dict__.items()):
            if attr in SKIP_ATTRS or attr in SYSTEM_REF_DICTS or attr in calc:
                continue
            if isinstance(val, ContextualModelingObjectAttribute):
                out[(o.name, attr)] = ("link", val._value.name)
            elif isinstance(val, ListLinkedToModelingObj):
                out[(o.name, attr)] = ("list", tuple(unwrap(x).name for x in list.__iter__(val)))
            elif isinstance(val, ModelingObject):
                out[(o.name, attr)] = ("link", val.name)
            elif isinstance(val, ExplainableObject):
                out[(o.name, attr)] = canon(val)
            elif isinstance(val, (str, int, float)) or val is None:
                out[(o.name, attr)] = ("raw", val)
    return out


def link_snapshot(objs):
    """Forward links and reverse look-ups by name."""
    out = {}
    for o in objs:
        fw = {}
        for attr, val in list(o.__dict__.items()):
            if attr in SKIP_ATTRS:
                continue
            if isinstance(val, ContextualModelingObjectAttribute):
                fw[attr] = val._value.name
            elif isinstance(val, ListLinkedToModelingObj):
                fw[attr] = tuple(unwrap(x).name for x in list.__iter__(val))
        out[("fw", o.name)] = tuple(sorted(fw.items()))
        out[("containers", o.name)] = tuple(sorted(unwrap(c).name for c in o.modeling_obj_containers))
    return out


def identity_snapshot(objs):
    """{(obj, attr, key): id(value)} + the list of references that keeps those ids meaningful."""
    ids, keep = {}, []
    for o in objs:
        for attr, val in list(o.__dict__.items()):
            if attr in SKIP_ATTRS or attr in SYSTEM_REF_DICTS:
                continue
            if isinstance(val, ExplainableObjectDict):
                ids[(o.name, attr, "<dict>")] = id(val)
                keep.append(val)
                for k, x in val.items():
                    ids[(o.name, attr, key_name(k))] = id(x)
                    keep.append(x)
            elif isinstance(val, ListLinkedToModelingObj):
                ids[(o.name, attr, "<list>")] = id(val)
                keep.append(val)
                for i, x in enumerate(list.__iter__(val)):
                    ids[(o.name, attr, i)] = id(x)
                    keep.append(x)
            elif isinstance(val, (ExplainableObject, ContextualModelingObjectAttribute)):
                ids[(o.name, attr, None)] = id(val)
                keep.append(val)
    return ids, keep


def _current_holder(v):
    """Where is this value held *now*? returns (obj name, attr, key) or None if detached / superseded."""
    c = v.modeling_obj_container
    if c is None:
        return None
    c = unwrap(c)
    attr = v.attr_name_in_mod_obj_container
    cur = c.__dict__.get(attr)
    if cur is v:
        return (c.name, attr, None)
    if isinstance(cur, dict):
        for k, x in cur.items():
            if x is v:
                return (c.name, attr, key_name(k))
    return ("STALE", c.name, attr)


def describe_value(v):
    h = _current_holder(v)
    if h is None:
        return "DETACHED(" + str(getattr(v, "label", "?"))[:60] + ")"
    if h[0] == "STALE":
        return f"SUPERSEDED({h[1]}.{h[2]}:{str(getattr(v, 'label', '?'))[:40]})"
    return f"{h[0]}.{h[1]}" + (f"[{h[2]}]" if h[2] is not None else "")


def graph_snapshot(objs):
    """{(obj, attr, key): (sorted ancestors, sorted children)} rendered by holder names."""
    out = {}
    for o, attr, k, v in held_values(objs):
        anc = tuple(sorted(describe_value(a) for a in v.direct_ancestors_with_id))
        ch = tuple(sorted(describe_value(c) for c in v.direct_children_with_id))
        out[(o.name, attr, key_name(k) if k is not None else None)] = (anc, ch)
    return out


def plain_digest(d):
    h = hashlib.sha1()
    for k in sorted(d, key=repr):
        h.update(repr((k, d[k])).encode())
    return h.hexdigest()[:16]


def graph_digest(objs):
    h = hashlib.sha1()
    g = graph_snapshot(objs)
    for k in sorted(g, key=repr):
        h.update(repr((k, g[k])).encode())
    return h.hexdigest()[:16]


def strip_empty_entries(c):
    """A dict entry holding EMPTY has no hour at which it could differ from an absent entry."""
    if c[0] == "D":
        return ("D", tuple((k, x) for k, x in c[1] if x[0] != "E"))
    return c


def diff(s1, s2, rtol=RTOL, atol=ATOL, empty_entries_neutral=False):
    """List of (key, rendered a, rendered b) for keys whose values differ."""
    out = []
    for k in sorted(set(s1) | set(s2), key=repr):
        if k not in s1:
            out.append((k, "<absent>", render(s2[k])))
        elif k not in s2:
            out.append((k, render(s1[k]), "<absent>"))
        else:
            a, b = s1[k], s2[k]
            if empty_entries_neutral:
                a, b = strip_empty_entries(a), strip_empty_entries(b)
            # System.total_footprint is rounded to 4 decimals of kg by the library: two computations that agree to
            # 1e-16 can land on either side of a rounding boundary, so one quantum is allowed for this attribute only
            k_atol = max(atol, LIBRARY_ROUNDING_QUANTUM) if (isinstance(k, tuple) and len(k) > 1
                                                              and k[1] == "total_footprint" and atol > 0) else atol
            if not close(a, b, rtol, k_atol):
                out.append((k, render(s1[k]), render(s2[k])))
    return out


def plain_diff(d1, d2):
    out = []
    for k in sorted(set(d1) | set(d2), key=repr):
        a, b = d1.get(k, "<absent>"), d2.get(k, "<absent>")
        if isinstance(a, tuple) and a and a[0] in ("Q", "H", "D", "E", "O") and isinstance(b, tuple) and b \
                and b[0] in ("Q", "H", "D", "E", "O"):
            if not close(a, b, 1e-12, 0.0):
                out.append((k, render(a), render(b)))
        elif a != b:
            out.append((k, str(a)[:200], str(b)[:200]))
    return out


def canonical_rank(objs):
    """{(obj name, attr): rank} following CANONICAL_COMPUTATION_ORDER then declared attribute order:
    used to name the earliest divergent attribute of a violation."""
    order = ["UsageJourneyStep", "UsageJourney", "Device", "Country", "UsagePattern", "Service", "JobBase",
             "Network", "ServerBase", "Storage", "System"]   # names of CANONICAL_COMPUTATION_ORDER (no heavy import)
    rank = {}
    for o in objs:
        mro = [c.__name__ for c in type(o).__mro__]
        ci = next((i for i, c in enumerate(order) if c in mro), 99)
        for ai, a in enumerate(o.calculated_attributes):
            rank[(o.name, a)] = (ci, ai)
    return rank


def class_attr(obj, attr):
    """'Class.attr' with the class that *declares* the update function (JobBase rather than Job)."""
    fn = f"update_{attr}"
    for c in type(obj).__mro__:
        if fn in c.__dict__:
            return f"{c.__name__}.{attr}"
    return f"{type(obj).__name__}.{attr}"
