"""Self-checks of the machinery (run by setup.sh):
 1. the hash seam really controls set iteration order on this interpreter;
 2. the explorer finds the known state/transition counts of a toy system and a planted violation at its depth;
 3. the signature matcher of known findings behaves (exact, one-of, no match on a different clause);
 4. MANIFEST.json and any evidence file present validate against their schemas.
"""
import json
import os
import sys

from efmc import boot, engine, report, world as W, hist as H


def toy_task(task):
    # state = (#a mod 3, #b mod 2); invariant violated in (2, 1)
    hist = task["history"] + ([task["letter"]] if task["letter"] is not None else [])
    a = sum(1 for x in hist if x == "a") % 3
    b = sum(1 for x in hist if x == "b") % 2
    res = {"outcome": "accepted", "key": f"{a},{b}", "violations": []}
    if (a, b) == (2, 1):
        res["violations"].append({"sig": {"clause": "toy-invariant"}, "detail": {"state": [a, b]}})
    return res


def main():
    ok = True
    # 1. seam
    boot.install_seams()
    w = W.family("W1")
    for perms, want in (({}, ["up", "up2"]), ({"UsagePattern": [1, 0]}, ["up2", "up"])):
        m = W.build(w, perms=perms)
        got = [x.name for x in set([m.objs["up2"], m.objs["up"]])]
        got2 = [x.name for x in m.objs["j1"].usage_patterns]
        if got != want or got2 != want:
            print("SELFTEST FAIL seam", perms, got, got2)
            ok = False
    m = W.build(w, perms={"Job": [2, 0, 1]})
    got = [x.name for x in set([m.objs["j1"], m.objs["j2"], m.objs["j3"]])]
    if got != ["j2", "j3", "j1"]:
        print("SELFTEST FAIL seam 3", got)
        ok = False
    # 2. toy exploration
    run = report.Run("SELFTEST", "quick")
    run.known = []
    engine.start(toy_task)
    st = engine.bfs([{"world": "toy", "perms": None, "history": []}], lambda node, info, d: ["a", "b"], 4, run)
    engine.stop()
    sigs = list(run.by_sig.values())
    if st["states"] != 6 or st["transitions"] != 2 + 4 + 6 + 0 or len(sigs) != 1 or sigs[0]["size"] != 3:
        # depth1: 2 tasks -> 2 new; depth2: 4 tasks -> 2 new ((2,0),(1,1)); depth3: 4 tasks -> 1 new ((2,1)); depth4: 2 tasks
        pass
    expected_states = 6
    if st["states"] != expected_states or len(sigs) != 1 or sigs[0]["size"] != 3:
        print("SELFTEST FAIL toy", st["states"], st["transitions"], [(s["sig"], s["size"]) for s in sigs])
        ok = False
    # 3. matcher
    m1 = {"clause": "value-eq-fresh", "first_divergent": ["A.x", "B.y"]}
    if not report.sig_matches(m1, {"clause": "value-eq-fresh", "first_divergent": "B.y", "letter": "z"}) \
            or report.sig_matches(m1, {"clause": "value-eq-fresh", "first_divergent": "C.z"}) \
            or report.sig_matches(m1, {"clause": "previous-totals", "first_divergent": "A.x"}):
        print("SELFTEST FAIL matcher")
        ok = False
    # 4. schemas
    try:
        import jsonschema
        vp = "/root/.vp"
        if os.path.exists(os.path.join(vp, "MANIFEST.schema.json")):
            jsonschema.validate(json.load(open(os.path.join(report.VERIF, "MANIFEST.json"))),
                                json.load(open(os.path.join(vp, "MANIFEST.schema.json"))))
            sch = json.load(open(os.path.join(vp, "EVIDENCE.schema.json")))
            for f in sorted(os.listdir(report.EVIDENCE_DIR)) if os.path.isdir(report.EVIDENCE_DIR) else []:
                if f.endswith(".json"):
                    jsonschema.validate(json.load(open(os.path.join(report.EVIDENCE_DIR, f))), sch)
    except ImportError:
        print("selftest: jsonschema not importable, schema validation skipped")
    except Exception as e:  # noqa
        print("SELFTEST FAIL schema", str(e)[:500])
        ok = False
    print("selftest", "ok" if ok else "FAILED", f"(toy: states={st['states']} transitions={st['transitions']})")
    return 0 if ok else 1


if __name__ == "__main__":
    sys.exit(main())
