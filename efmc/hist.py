"""Shared pieces of the history-based checks: schedules, replay of a history on a fresh model, alphabets."""
import itertools

from efmc import world as W

# attributes of list type and the class group their elements must belong to
LIST_ELEM = {("UsageJourneyStep", "jobs"): "Job", ("UsageJourney", "uj_steps"): "UsageJourneyStep",
             ("UsagePattern", "devices"): "Device", ("System", "usage_patterns"): "UsagePattern"}
LINK_TARGET = {"server": ["Server", "BoaviztaCloudServer"], "storage": ["Storage"], "usage_journey": ["UsageJourney"],
               "network": ["Network"], "country": ["Country"]}
JOB_CLASSES = ["Job", "GpuJob", "VideoStreamingJob", "WebApplicationJob", "GenAIJob"]


# ------------------------------------------------------------------------------------------------ schedules
def perm_sets(w, max_deviations=1, only_groups=None, reversed_all=True):
    """All schedules with at most `max_deviations` rank groups whose permutation differs from creation order.
    A schedule is {group: [rank of i-th member]}. The default schedule is {}."""
    groups = {g: ms for g, ms in W.rank_groups(w).items() if len(ms) > 1 and (only_groups is None or g in only_groups)}
    out = [{}]
    names = sorted(groups)
    for k in range(1, max_deviations + 1):
        for combo in itertools.combinations(names, k):
            alts = []
            for g in combo:
                n = len(groups[g])
                alts.append([list(p) for p in itertools.permutations(range(n)) if list(p) != list(range(n))])
            for choice in itertools.product(*alts):
                out.append({g: p for g, p in zip(combo, choice)})
    if reversed_all:
        rev = reversed_schedule(w)
        if rev not in out:
            out.append(rev)
    return out


def reversed_schedule(w):
    groups = {g: ms for g, ms in W.rank_groups(w).items() if len(ms) > 1}
    return {g: list(range(len(ms) - 1, -1, -1)) for g, ms in groups.items()}


# ------------------------------------------------------------------------------------------------ replay
def world_of(task):
    w = task["world"]
    return W.family(w) if isinstance(w, str) else w


def fold_spec(w, history):
    for e in history:
        try:
            w = W.apply_spec(w, e)
        except W.SpecRaise:
            pass
    return w


def setup(task, tolerate_failures=False):
    """Build the live model of the task's root world under its schedule and replay its history.
    Returns (model, current world spec, list of per-letter outcomes)."""
    w = world_of(task)
    m = W.build(w, perms=task.get("perms"))
    outcomes = []
    for e in task.get("history", []):
        try:
            w2 = W.apply_spec(w, e)
        except W.SpecRaise:
            w2 = w
        try:
            W.apply_live(m, e)
            outcomes.append("accepted")
            w = w2
        except Exception as ex:  # noqa
            if not tolerate_failures:
                raise
            outcomes.append("raised:" + type(ex).__name__)
            if tolerate_failures == "apply_to_world":
                w = w2
    m.world = w
    return m, w, outcomes


# ------------------------------------------------------------------------------------------------ alphabets
def _scaled(v, k=2.0):
    return ["q", (v[1] * k if v[1] else 1.0), v[2]]


def numeric_letters(w, w0, names=None, specials=True):
    out = []
    names = names if names is not None else W.reachable(w)
    for n in names:
        o = w["objects"][n]
        for a, v in o["attrs"].items():
            orig = w0["objects"][n]["attrs"].get(a)
            if v[0] == "q":
                alts = [_scaled(v)]
                if specials:
                    if a == "user_time_spent":
                        alts += [["q", 0.0, v[2]], ["q", 61.0, "minute"]]
                    elif a == "request_duration":
                        alts += [["q", 61.0, "minute"], ["q", 30.0, "minute"]]
                    elif a == "data_stored" and o["cls"] == "Job":
                        alts += [["q", -v[1], v[2]]]
                    elif a == "fixed_nb_of_instances":
                        alts += [["e"]]
                if orig is not None and orig != v:
                    alts.append(orig)
                for alt in alts:
                    if alt != v:
                        out.append(["set", n, a, alt])
            elif v[0] == "e" and a == "fixed_nb_of_instances":
                if orig is not None and orig != v:
                    out.append(["set", n, a, orig])
                elif o["attrs"].get("server_type", ["c", "on-premise"])[1] == "on-premise":
                    out.append(["set", n, a, ["q", 50.0, "dimensionless"]])
            elif v[0] == "h":
                vals, start, unit = v[1], v[2], v[3]
                alts = [["h", [2.0, 2.0, 2.0, 9.0][:len(vals)] + [1.0] * max(0, len(vals) - 4), start, unit],
                        ["h", vals, _shift_start(start, 5), unit],
                        ["h", vals + [3.0, 1.0], start, unit]]
                if orig is not None and orig != v:
                    alts.append(orig)
                for alt in alts:
                    if alt != v:
                        out.append(["set", n, a, alt])
            elif v[0] == "c" and a == "server_type":
                for st in ("autoscaling", "on-premise", "serverless"):
                    if st != v[1]:
                        out.append(["set", n, a, ["c", st]])
            elif v[0] == "tz":
                for z in ("Europe/Paris", "America/New_York", "Asia/Kolkata"):
                    if z != v[1]:
                        out.append(["set", n, a, ["tz", z]])
                        break
                if orig is not None and orig != v and ["set", n, a, orig] not in out:
                    out.append(["set", n, a, orig])
    return out


def _shift_start(start, hours):
    from datetime import datetime, timedelta
    fmt = "%Y-%m-%d %H:%M"
    return (datetime.strptime(start, fmt) + timedelta(hours=hours)).strftime(fmt)


def universe(w, groups):
    return [n for n in W.creation_order(w) if w["objects"][n]["cls"] in groups]


def link_letters(w, names=None):
    out = []
    names = names if names is not None else W.reachable(w)
    for n in names:
        o = w["objects"][n]
        for a, v in o["attrs"].items():
            if v[0] != "link" or a not in LINK_TARGET:
                continue
            for t in universe(w, LINK_TARGET[a]):
                if t != v[1] and w["objects"][t]["cls"] == w["objects"][v[1]]["cls"]:
                    out.append(["link", n, a, t])
    return out


def list_menus(cur, candidates):
    menus = []
    if len(cur) > 1:
        menus += [cur[1:], cur[:-1], cur[::-1]]
    for c in candidates:
        if c not in cur:
            menus.append(cur + [c])
            menus.append([c])
    if cur:
        menus.append(cur + [cur[0]])
    menus.append([])
    seen, out = [], []
    for x in menus:
        if x != cur and x not in seen:
            seen.append(x)
            out.append(x)
    return out


def list_letters(w, names=None, allow_empty=True):
    out = []
    names = names if names is not None else W.reachable(w)
    for n in names:
        o = w["objects"][n]
        for a, v in o["attrs"].items():
            if v[0] != "list":
                continue
            grp = LIST_ELEM.get((o["cls"], a))
            if grp is None:
                continue
            classes = JOB_CLASSES if grp == "Job" else [grp]
            cands = universe(w, classes)
            for menu in list_menus(list(v[1]), cands):
                if not menu and not allow_empty:
                    continue
                out.append(["list", n, a, menu])
    return out
