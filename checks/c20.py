"""C20 — hourly-series builders produce exactly the requested time line.

Bounded exhaustive enumeration of the inputs of every helper of efootprint/builders/time_builders.py (except
create_random_hourly_usage_df) on the real code, compared with a reference written with plain `datetime`
arithmetic (no pandas / numpy / pint in the reference: pandas is only used to *read* what the library returned).

Enumerated space (a union of full products, each enumerated completely; see `build_tasks`):
  (start, unit) in  STARTS x UNITS  +  (omitted start, omitted unit -> documented defaults)
  list helpers      x all lists of length 1..5 over the value alphabet
  growth helpers    x spans (all but 400 d) x parameter menus
  frequency helper  x all 7 spans x {daily x HOURS_FULL, weekly / monthly / yearly x day subsets x HOURS_SMALL}
  daily-volume      x all 7 spans x volumes x HOURS_DAILY_VOLUME

Readings (DESIGN §5 C20): list and growth helpers must have exactly len(list) / floor(span in hours) values; the
frequency-based helpers must cover the span (ceil(span_h) <= n <= floor(span_h) + 1: the statement does not fix
whether the end is inclusive) and *every* returned hour must carry the volume iff it matches.
"""
import hashlib
import math
import sys
from datetime import date, datetime, timedelta
from fractions import Fraction
from itertools import combinations, product

from efmc import boot, engine, report

PROP = "C20"
HOUR = timedelta(hours=1)
MICROSECOND = timedelta(microseconds=1)
EPOCH = datetime(1970, 1, 1)
DEFAULT_START = "2025-01-01T00:00"      # default of every helper's signature
DEFAULT_UNIT = "dimensionless"

STARTS = ["2024-02-28T22:00", "2024-12-31T00:00", "2025-01-01T00:00", "2025-03-30T00:00", "2025-01-31T13:00"]
UNITS = ["dimensionless", "GB"]
SPANS = {"1h": (1, "hour"), "5h": (5, "hour"), "1d": (1, "day"), "1.5d": (1.5, "day"), "8d": (8, "day"),
         "35d": (35, "day"), "400d": (400, "day")}
SPANS_ALL = list(SPANS)
SPANS_GROWTH = [s for s in SPANS_ALL if s != "400d"]
HOURS_PER = {"hour": 1, "day": 24}

# active-day menus: month ends (29, 30, 31), leap day (60 in 2024), the day-of-year of the start dates (59, 366, 1,
# 89 -> its neighbour 90, 31) and the last days of a normal / leap year
MONTH_DAYS = {"quick": [1, 15, 29, 30, 31], "thorough": [1, 2, 15, 28, 29, 30, 31]}
YEAR_DAYS = {"quick": [1, 31, 60, 90, 365, 366], "thorough": [1, 31, 32, 59, 60, 61, 90, 365, 366]}

np = pd = tb = u = None


def prepare():
    global np, pd, tb, u
    boot.core()
    import numpy
    import pandas
    from efootprint.builders import time_builders
    from efootprint.constants.units import u as ureg
    np, pd, tb, u = numpy, pandas, time_builders, ureg


# ------------------------------------------------------------------------------------------- menus per tier
def subsets(menu, kmax, kmin=1):
    out = []
    for k in range(kmin, kmax + 1):
        out += [list(c) for c in combinations(menu, k)]
    return out


def menus(tier):
    thorough = tier == "thorough"
    kd = 3 if thorough else 2
    tk = "thorough" if thorough else "quick"
    m = {
        "list_alphabet": [0, 1, 2.5, -3] if thorough else [0, 1, 2.5],
        "linear": [[10, 20], [0, 1], [5, 5], [20, 10], [0.5, 2.5]],
        "sin": [[10, 24], [3, 7], [1, 240], [2.5, 5]],
        "dfluct": [[s, h] for s in (0.5, 1, 0.1)
                   for h in ([None] + (list(range(24)) if thorough else [0, 4, 13, 23]))],
        "days": {
            "weekly": [None] + subsets(range(7), kd),
            "monthly": [None] + subsets(MONTH_DAYS[tk], kd),
            "yearly": [None] + subsets(YEAR_DAYS[tk], kd),
        },
        "hours_small": [None] + subsets([0, 13, 22] if thorough else [0, 22], 3),
        "hours_full": [None] + (subsets(range(24), 3) if thorough
                                else subsets(range(24), 1) + subsets([0, 9, 13, 22, 23], 3, 2)),
        "hours_daily_volume": (subsets(range(24), 2) + subsets([0, 9, 13, 22, 23], 3, 3) if thorough
                               else subsets(range(24), 1) + subsets([0, 9, 13, 22, 23], 3, 2)),
        "freq_volume": 2.5,
        "daily_volumes": [100, 7.0],
    }
    return m


def chunks(lst, n):
    return [lst[i:i + n] for i in range(0, len(lst), n)]


def build_tasks(tier):
    m = menus(tier)
    su = [(s, un) for s in STARTS for un in UNITS] + [(None, None)]
    lists = []
    for k in range(1, 6):
        lists += [list(t) for t in product(m["list_alphabet"], repeat=k)]
    tasks = []
    for s, un in su:
        base = {"start": s, "unit": un}
        for helper in ("create_hourly_usage_df_from_list", "create_source_hourly_values_from_list"):
            for ch in chunks(lists, 150):
                tasks.append(dict(base, kind="list", helper=helper, spans=["-"], items=ch))
        tasks.append(dict(base, kind="growth", helper="linear_growth_hourly_values", spans=SPANS_GROWTH,
                          items=m["linear"]))
        tasks.append(dict(base, kind="growth", helper="sinusoidal_fluct_hourly_values", spans=SPANS_GROWTH,
                          items=m["sin"]))
        for ch in chunks(m["dfluct"], 15):
            tasks.append(dict(base, kind="growth", helper="daily_fluct_hourly_values", spans=SPANS_GROWTH, items=ch))
        fb = dict(base, kind="freq", helper="create_hourly_usage_from_frequency", spans=SPANS_ALL)
        for ch in chunks([[None, h] for h in m["hours_full"]], 16):
            tasks.append(dict(fb, frequency="daily", volume=m["freq_volume"], items=ch))
        for f in ("weekly", "monthly", "yearly"):
            combos = [[d, h] for d in m["days"][f] for h in m["hours_small"]]
            for ch in chunks(combos, 16):
                tasks.append(dict(fb, frequency=f, volume=m["freq_volume"], items=ch))
        for vol in m["daily_volumes"]:
            for ch in chunks(m["hours_daily_volume"], 16):
                tasks.append(dict(base, kind="dailyvol",
                                  helper="create_hourly_usage_from_daily_volume_and_list_of_hours",
                                  spans=SPANS_ALL, volume=vol, items=ch))
    return tasks, m


# ------------------------------------------------------------------------- reference (plain datetime arithmetic)
def span_hours(span):
    mag, unit = SPANS[span]
    return Fraction(str(mag)) * HOURS_PER[unit]


class Timeline:
    """start, start + 1 h, start + 2 h, ... with the calendar features of each hour (lazily extended)."""

    def __init__(self, start):
        self.stamps, self.hour, self.weekday, self.dom, self.doy, self.ns = [], [], [], [], [], []
        self._next = start

    def upto(self, n):
        t = self._next
        while len(self.stamps) < n:
            self.stamps.append(t)
            self.hour.append(t.hour)
            self.weekday.append(t.weekday())                                  # Monday = 0
            self.dom.append(t.day)
            self.doy.append((t.date() - date(t.year, 1, 1)).days + 1)         # 1 Jan = 1
            self.ns.append((t - EPOCH) // MICROSECOND * 1000)                  # what a naive datetime64[ns] holds
            t = t + HOUR
        self._next = t
        return self


def close(a, b):
    if a == b:
        return True
    if a != a or b != b:
        return False
    return abs(a - b) <= max(1e-12, 1e-9 * max(abs(a), abs(b)))


def first_mismatch(got, exp):
    """None if the two float lists agree (same length assumed by caller), else (i, n_mismatch)."""
    if got == exp:
        return None
    bad = [i for i, (a, b) in enumerate(zip(got, exp)) if not close(a, b)]
    return (bad[0], len(bad)) if bad else None


# ------------------------------------------------------------------------------------------------ observation
class Shape(Exception):
    pass


def observe(ret):
    """What the library returned, as plain Python: (stamps, pint unit or None, magnitudes, numpy magnitudes).
    `stamps` is a LazyStamps: epoch nanoseconds of the (timezone-naive) index, datetimes only on demand."""
    df = ret if isinstance(ret, pd.DataFrame) else getattr(ret, "value", None)
    if not isinstance(df, pd.DataFrame):
        raise Shape(f"returned {type(ret).__name__}, no DataFrame inside")
    if list(df.columns) != ["value"]:
        raise Shape(f"columns {list(df.columns)}")
    idx = df.index
    if isinstance(idx, pd.PeriodIndex):
        if idx.freqstr.lower() not in ("h", "1h"):
            raise Shape(f"PeriodIndex with freq {idx.freqstr}")
        idx = idx.to_timestamp()
    if not isinstance(idx, pd.DatetimeIndex):
        raise Shape(f"index is a {type(idx).__name__}")
    if idx.tz is not None:
        raise Shape(f"index is timezone-aware ({idx.tz})")
    stamps = LazyStamps(idx)
    units = getattr(df.dtypes.iloc[0], "units", None)
    col = df["value"].values
    mags = col.quantity.magnitude if hasattr(col, "quantity") else col
    if hasattr(mags, "to_numpy"):
        mags = mags.to_numpy(dtype=float, na_value=float("nan"))
    arr = np.asarray(mags, dtype=float)
    if arr.ndim != 1 or len(arr) != len(stamps):
        raise Shape(f"values of shape {arr.shape} for {len(stamps)} rows")
    return stamps, units, arr.tolist(), arr


class LazyStamps:
    def __init__(self, idx):
        self.idx = idx
        self.ns = idx.asi8.tolist()
        self._dt = None

    def __len__(self):
        return len(self.ns)

    @property
    def dt(self):
        if self._dt is None:
            self._dt = self.idx.to_pydatetime().tolist()
        return self._dt

    def __getitem__(self, i):
        return self.dt[i]


class Case:
    """One library call and the clauses evaluated on its result."""

    def __init__(self, task, span, item, out):
        self.task, self.span, self.item, self.out = task, span, item, out
        self.start = datetime.fromisoformat(task["start"] or DEFAULT_START)
        self.unit_name = task["unit"] or DEFAULT_UNIT
        self.kw = {}
        if task["start"] is not None:
            self.kw["start_date"] = datetime.fromisoformat(task["start"])
        if task["unit"] is not None:
            self.kw["pint_unit"] = getattr(u, task["unit"])
        self.n = 0
        self.aligned = False

    def single(self):
        t = dict(self.task)
        t["spans"], t["items"] = [self.span], [self.item]
        return t

    def fail(self, clause, detail, **extra):
        sig = {"helper": self.task["helper"], "clause": clause, "frequency": self.task.get("frequency", "-"),
               "start_at_midnight": "yes" if (self.start.hour, self.start.minute) == (0, 0) else "no"}
        sig.update(extra)
        self.out["violations"].append({"sig": sig, "detail": detail, "case": self.single(),
                                       "size": max(1, self.n) + len(repr(self.item))})

    def ok(self, clause, n=1):
        c = self.out["counters"]
        c["checked:" + clause] = c.get("checked:" + clause, 0) + n

    def timespan(self):
        mag, unit = SPANS[self.span]
        return mag * getattr(u, unit)

    def call(self, fn, *args, **kwargs):
        """Run the helper; returns (stamps, mags) or None when the call itself already is a violation."""
        self.out["counters"]["calls"] = self.out["counters"].get("calls", 0) + 1
        try:
            ret = fn(*args, **kwargs, **self.kw)
        except Exception as ex:  # a legal input must be accepted
            self.fail("raises", {"exception": f"{type(ex).__name__}: {str(ex)[:300]}"}, exc=type(ex).__name__)
            return None
        try:
            stamps, units, mags, arr = observe(ret)
        except Shape as ex:
            self.fail("shape", {"problem": str(ex)})
            return None
        self.n = len(stamps)
        h = hashlib.blake2b(arr.tobytes(), digest_size=6)
        h.update(f"{stamps.ns[0] if len(stamps) else None}|{len(stamps)}|{units}".encode())
        self.out["digests"].append(h.hexdigest())
        if "sample" not in self.out:
            nz = sum(1 for v in mags if v != 0)
            self.out["sample"] = {"helper": self.task["helper"], "start": self.task["start"], "unit": self.task["unit"],
                                  "span": self.span, "frequency": self.task.get("frequency"),
                                  "volume": self.task.get("volume"), "item": self.item,
                                  "observed": {"n": len(stamps), "first": str(stamps[0]) if len(stamps) else None,
                                               "last": str(stamps[-1]) if len(stamps) else None, "unit": str(units),
                                               "nonzero_hours": nz, "head": mags[:4]}}
        want = getattr(u, self.unit_name)
        if units is None or units != want:
            self.fail("unit", {"requested": self.unit_name, "got": str(units)})
        else:
            self.ok("unit")
        return stamps, mags

    def check_index(self, stamps, tl, nmin, nmax):
        n = len(stamps)
        if not nmin <= n <= nmax:
            self.fail("length", {"n": n, "required_min": nmin, "required_max": nmax})
        else:
            self.ok("length")
        if n == 0:
            return
        tl.upto(n)
        self.aligned = stamps.ns == tl.ns[:n]
        if self.aligned:
            self.ok("start")
            self.ok("step")
            return
        if stamps[0] != self.start:
            self.fail("start", {"requested": str(self.start), "first_timestamp": str(stamps[0])})
        else:
            self.ok("start")
        for i in range(1, n):
            if stamps[i] - stamps[i - 1] != HOUR:
                self.fail("step", {"at": i, "prev": str(stamps[i - 1]), "next": str(stamps[i])})
                return
        self.ok("step")

    def check_values(self, mags, exp, stamps, clause="values", what=None):
        k = min(len(mags), len(exp))
        mm = first_mismatch(mags[:k], exp[:k])
        if mm is None:
            self.ok(clause, k)
            return True
        i, nb = mm
        self.fail(clause, {"first_mismatch_at": i, "timestamp": str(stamps[i]), "expected": exp[i], "got": mags[i],
                           "weekday(Mon=0)": stamps[i].weekday(), "n_mismatching_hours": nb, "n_hours": k,
                           "what": what})
        return False


# ----------------------------------------------------------------------------------------------------- kinds
def case_list(c, tl):
    lst = list(c.item)
    r = c.call(getattr(tb, c.task["helper"]), list(lst))
    if r is None:
        return
    stamps, mags = r
    c.check_index(stamps, tl, len(lst), len(lst))
    if len(mags) == len(lst):
        c.check_values(mags, [float(x) for x in lst], stamps, what="element for element")


def case_growth(c, tl):
    helper = c.task["helper"]
    n = math.floor(span_hours(c.span))
    ts = c.timespan()
    if helper == "linear_growth_hourly_values":
        a, b = c.item
        r = c.call(tb.linear_growth_hourly_values, ts, a, b)
        exp = [float(a)] if n == 1 else [a + (b - a) * i / (n - 1) for i in range(n)]
    elif helper == "sinusoidal_fluct_hourly_values":
        amp, period = c.item
        r = c.call(tb.sinusoidal_fluct_hourly_values, ts, amp, period)
        exp = [amp * math.sin(2 * math.pi * i / period) for i in range(n)]
    else:
        scale, hmin = c.item
        extra = {} if hmin is None else {"hour_of_day_for_min_value": hmin}
        r = c.call(tb.daily_fluct_hourly_values, ts, scale, **extra)
        hm = 4 if hmin is None else hmin
        tl.upto(n)
        exp = [1 + scale * math.sin(3 * math.pi / 2 + 2 * math.pi * (h - hm) / 24) for h in tl.hour[:n]]
    if r is None:
        return
    stamps, mags = r
    c.check_index(stamps, tl, n, n)
    if not c.check_values(mags, exp, stamps, what="formula evaluated at the hour of day / rank of each timestamp"):
        return
    if helper == "linear_growth_hourly_values" and len(mags) == n:
        a, b = c.item
        if not close(mags[0], float(a)) or (n > 1 and not close(mags[-1], float(b))):
            c.fail("endpoints", {"first": mags[0], "last": mags[-1], "start_value": a, "end_value": b})
        else:
            c.ok("endpoints")
    if helper == "daily_fluct_hourly_values" and len(mags) == n:
        scale, hmin = c.item
        hm = 4 if hmin is None else hmin
        at_min = [mags[i] for i in range(n) if stamps[i].hour == hm]
        if any(not close(v, 1 - scale) for v in at_min) or any(v < 1 - scale - 1e-9 for v in mags):
            c.fail("min-at-hour", {"hour_of_day_for_min_value": hm, "values_at_that_hour": at_min[:5],
                                   "series_min": min(mags)})
        elif at_min:
            c.ok("min-at-hour", len(at_min))


def expected_frequency(tl, n, frequency, days, hours, vol):
    hs = {0} if hours is None else set(hours)
    hf = tl.hour[:n]
    if frequency == "daily":
        return [vol if h in hs else 0.0 for h in hf]
    if days is None:
        ds = {0} if frequency == "weekly" else {1}      # documented defaults: Monday / first day of month / of year
    else:
        ds = set(days)
    feat = {"weekly": tl.weekday, "monthly": tl.dom, "yearly": tl.doy}[frequency][:n]
    return [vol if (h in hs and d in ds) else 0.0 for h, d in zip(hf, feat)]


def span_bounds(span):
    sh = span_hours(span)
    return math.ceil(sh), math.floor(sh) + 1


def case_freq(c, tl):
    days, hours = c.item
    f, vol = c.task["frequency"], c.task["volume"]
    r = c.call(tb.create_hourly_usage_from_frequency, c.timespan(), vol, f,
               None if days is None else list(days), None if hours is None else list(hours))
    if r is None:
        return
    stamps, mags = r
    nmin, nmax = span_bounds(c.span)
    c.check_index(stamps, tl, nmin, nmax)
    tl.upto(len(mags))
    exp = expected_frequency(tl, len(mags), f, days, hours, float(vol))
    c.out["counters"]["matching_hours_expected"] = c.out["counters"].get("matching_hours_expected", 0) + \
        sum(1 for v in exp if v != 0.0)
    c.check_values(mags, exp, stamps, what="volume at matching (hour, day) and 0 elsewhere")


def case_dailyvol(c, tl):
    hours = c.item
    vol = c.task["volume"]
    r = c.call(tb.create_hourly_usage_from_daily_volume_and_list_of_hours, c.timespan(), vol, list(hours))
    if r is None:
        return
    stamps, mags = r
    nmin, nmax = span_bounds(c.span)
    c.check_index(stamps, tl, nmin, nmax)
    n = len(mags)
    tl.upto(n)
    exp = expected_frequency(tl, n, "daily", None, hours, float(vol) / len(hours))
    c.check_values(mags, exp, stamps, what="daily_volume / len(hours) at the chosen hours and 0 elsewhere")
    # every full calendar day of the returned series (all 24 hours present) sums to the daily volume
    if c.aligned:
        nfull = 0
        for i in range(n - 23):
            if tl.hour[i] == 0:
                s = math.fsum(mags[i:i + 24])
                nfull += 1
                if not close(s, float(vol)):
                    c.fail("full-day-sum", {"day": str(stamps[i].date()), "sum": s, "daily_volume": vol})
                    break
        else:
            if nfull:
                c.ok("full-day-sum", nfull)


KINDS = {"list": case_list, "growth": case_growth, "freq": case_freq, "dailyvol": case_dailyvol}


def run_task(task):
    out = {"violations": [], "counters": {}, "digests": []}
    tl = Timeline(datetime.fromisoformat(task["start"] or DEFAULT_START))
    fn = KINDS[task["kind"]]
    for span in task["spans"]:
        for item in task["items"]:
            fn(Case(task, span, item, out), tl)
    # keep the smallest instance per signature (a broken helper fails on every case of the task)
    best, count = {}, {}
    for v in out["violations"]:
        k = repr(sorted(v["sig"].items()))
        count[k] = count.get(k, 0) + 1
        if k not in best or v["size"] < best[k]["size"]:
            best[k] = v
    out["violations"] = []
    for k, v in best.items():
        v["detail"] = dict(v["detail"], occurrences_in_task=count[k])
        out["violations"].append(v)
    out["outcome"] = "violations" if out["violations"] else "ok"
    return out


# ------------------------------------------------------------------------------------------------------ main
def main(tier):
    prepare()
    run = report.Run(PROP, tier)
    tk = "thorough" if tier == "thorough" else "quick"
    tasks, m = build_tasks(tier)
    engine.start(run_task)
    results = engine.pmap(tasks)
    engine.stop()
    timeouts = engine.check_results(results, run)
    if timeouts:
        raise engine.CrashError(f"{len(timeouts)} tasks hit the alarm, first: {timeouts[0]['task']}")
    digests = set()
    per_helper, samples, seen_sample = {}, [], set()
    states = calls = 0
    for t, r in zip(tasks, results):
        ncases = len(t["spans"]) * len(t["items"])
        states += ncases
        per_helper[t["helper"]] = per_helper.get(t["helper"], 0) + ncases
        digests.update(r["digests"])
        for c, n in r["counters"].items():
            run.count(c, n)
        calls += r["counters"].get("calls", 0)
        for v in r["violations"]:
            run.violation(v["sig"], {"task": v["case"], "detail": v["detail"], "size": v["size"]})
        k = (t["helper"], t.get("frequency"))
        if k not in seen_sample and "sample" in r and t["start"] is not None:
            seen_sample.add(k)
            samples.append(r["sample"])
    cov = {
        "states": states, "transitions": calls, "traces_validated_against_impl": calls,
        "distinct_outcomes": len(digests), "exhaustive": True, "samples": samples[:8],
        "cases_per_helper": per_helper, "tasks": len(tasks),
        "bounds": {
            "start_unit_pairs": f"{len(STARTS)} starts x {len(UNITS)} units + (both omitted -> defaults)",
            "starts": STARTS, "units": UNITS, "spans": SPANS_ALL, "spans_growth_helpers": SPANS_GROWTH,
            "lists": f"all lists of length 1..5 over {m['list_alphabet']}",
            "linear(start_value,end_value)": m["linear"], "sinusoidal(amplitude,period_h)": m["sin"],
            "daily_fluct(scale,hour_of_min|None=default)": len(m["dfluct"]),
            "active_day_subsets": {f: len(v) for f, v in m["days"].items()},
            "active_day_menus": f"weekly: all subsets of 0..6; monthly: of {MONTH_DAYS[tk]}; yearly: of "
                                f"{YEAR_DAYS[tk]}; size <= {3 if tier == 'thorough' else 2}, plus None (default)",
            "hour_subsets_daily_frequency": len(m["hours_full"]),
            "hour_subsets_daily_volume_helper": len(m["hours_daily_volume"]),
            "hour_subsets_weekly_monthly_yearly": len(m["hours_small"]),
            "volumes": {"frequency helper": m["freq_volume"], "daily volume helper": m["daily_volumes"]},
        },
        "explanation": "every case is one call of the real helper; index, unit and every hourly value are compared "
                       "with a reference computed by stepping a datetime by one hour",
    }
    return run.finish(cov, assumptions=[
        "length of frequency-based series: ceil(span_h) <= n <= floor(span_h)+1 (inclusive end allowed, not required)",
        "list helpers: exactly len(list) values; growth/fluctuation helpers: exactly floor(span in hours) values",
        "active_days=None means Monday (weekly) / day 1 (monthly, yearly); hours=None means midnight; weekday 0 = Monday; "
        "omitted start_date / pint_unit mean 2025-01-01 00:00 / dimensionless (signature defaults)",
        "float comparison: exact, else relative 1e-9 with absolute floor 1e-12 on the magnitude in the requested unit",
        "pandas/pint are trusted for reading back the index, dtype unit and magnitudes of the returned frame",
    ])


if __name__ == "__main__":
    try:
        sys.exit(main(sys.argv[1] if len(sys.argv) > 1 else "quick"))
    except engine.CrashError as e:
        print("HARNESS-ERROR", e)
        sys.exit(2)
