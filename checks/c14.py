"""C14 — invalid inputs are rejected, and a rejected edit changes nothing.

Enumerates every (class of the public class list, __init__ parameter, kind of invalid value applicable to its
annotation) at construction and as a later assignment (single, and grouped [valid, invalid] / [invalid, valid]) in
several states of built worlds.  Oracle: an exception is raised; after a refused assignment the input, identity,
value, graph and link snapshots of the whole universe are those taken before it.
"""
import json
import sys
import types
import typing
from inspect import signature

from efmc import boot, engine, report, world as W, snap as S, hist as H
from checks import c05

PROP = "C14"

# class -> (world family, object name)
WHERE = {"UsageJourneyStep": ("W1", "s2"), "UsageJourney": ("W1", "uj"), "Device": ("W1", "d"), "Country": ("W1", "c"),
         "UsagePattern": ("W1", "up"), "Job": ("W1", "j1"), "Network": ("W1", "nw"), "Server": ("W1", "sv"),
         "Storage": ("W1", "st"), "System": ("W1", "sys"),
         "WebApplication": ("W4", "wa"), "VideoStreaming": ("W4", "vs"), "GenAIModel": ("W4", "gm"),
         "BoaviztaCloudServer": ("W4", "csv"), "WebApplicationJob": ("W4", "jw"), "VideoStreamingJob": ("W4", "jv"),
         "GenAIJob": ("W4", "jg"), "GPUServer": ("W4", "gsv")}
STATES = {"W1": [[], [["set", "sv", "server_type", ["c", "on-premise"]]],
                 # an on-premise server with a fixed count: turning it autoscaling / serverless must be refused
                 [["set", "sv", "server_type", ["c", "on-premise"]],
                  ["set", "sv", "fixed_nb_of_instances", ["q", 5000.0, "dimensionless"]]],
                 [["link", "j1", "server", "sv_b"]],
                 [["list", "uj", "uj_steps", ["s2", "s1", "s3"]]], [["set", "j1", "data_stored", ["q", 200.0, "kilobyte"]]]],
          "W4": [[]]}
# companions of the invalid change in a grouped update: a quantity, a link and a list change (all valid on their own)
VALID_OTHER = {"W1": {"quantity": ["set", "nw", "bandwidth_energy_intensity", ["q", 0.07, "kilowatt_hour / gigabyte"]],
                      "link": ["link", "j2", "server", "sv_b"], "list": ["list", "s1", "jobs", ["j1", "j2"]]},
               "W4": {"quantity": ["set", "nw", "bandwidth_energy_intensity", ["q", 0.07, "kilowatt_hour / gigabyte"]],
                      "link": ["link", "jc", "server", "sv"], "list": ["list", "s1", "jobs", ["jp"]]}}
GROUPED_MODES = {"valid-then-invalid": ("quantity", True), "invalid-then-valid": ("quantity", False),
                 "link-then-invalid": ("link", True), "invalid-then-link": ("link", False),
                 "list-then-invalid": ("list", True)}


def prepare():
    boot.install_seams()


def param_kind(ann):
    from efootprint.abstract_modeling_classes.explainable_objects import ExplainableQuantity, ExplainableHourlyQuantities
    from efootprint.abstract_modeling_classes.explainable_object_base_class import ExplainableObject
    from efootprint.abstract_modeling_classes.modeling_object import ModelingObject
    origin = typing.get_origin(ann)
    if origin in (list, typing.List):
        return "list", typing.get_args(ann)[0]
    if origin in (types.UnionType, typing.Union):
        args = typing.get_args(ann)
        if any(a is ExplainableQuantity for a in args):
            return "quantity-optional", None
        return "other", None
    if ann is ExplainableQuantity:
        return "quantity", None
    if ann is ExplainableHourlyQuantities:
        return "hourly", None
    if isinstance(ann, type) and issubclass(ann, ExplainableObject):
        return "categorical", None
    if isinstance(ann, type) and issubclass(ann, ModelingObject):
        return "link", ann
    return "other", None


def triples(cls_name):
    """[(param, kind-of-parameter, kind-of-invalid-value)] for a class."""
    cls = W.get_cls(cls_name)
    out = []
    lv = cls.list_values() if hasattr(cls, "list_values") else {}
    clv = cls.conditional_list_values() if hasattr(cls, "conditional_list_values") else {}
    neg_ok = cls.attributes_that_can_have_negative_values() if hasattr(cls, "attributes_that_can_have_negative_values") else []
    for name, p in signature(cls.__init__).parameters.items():
        if name in ("self", "name", "short_name"):
            continue
        pk, inner = param_kind(p.annotation)
        if pk in ("quantity", "quantity-optional"):
            kinds = ["wrong-dimension", "plain-number", "string", "bare-pint-quantity", "hourly-instead-of-scalar"]
            if name not in neg_ok:
                kinds.insert(1, "negative")
        elif pk == "hourly":
            kinds = ["scalar-instead-of-hourly", "plain-list", "string", "hourly-wrong-dimension(logged-only)"]
        elif pk == "categorical":
            kinds = ["plain-string", "plain-number"]
            if name in lv or name in clv:
                kinds += ["outside-allowed-list", "quantity-instead-of-category"]
        elif pk == "link":
            kinds = ["wrong-class-object", "string", "explainable-quantity"]
        elif pk == "list":
            kinds = ["list-containing-wrong-class-object", "single-object-instead-of-list", "list-containing-string"]
        else:
            continue
        # conditional allowed lists: a value allowed only under another value of the attribute it depends on, and a
        # change of that attribute under which the current dependent value is no longer allowed
        if name in clv and pk in ("quantity", "quantity-optional", "categorical"):
            kinds.append("allowed-only-under-another-condition")
        awdv = cls.attributes_with_depending_values() if hasattr(cls, "attributes_with_depending_values") else {}
        if name in awdv and pk == "categorical":
            kinds.append("condition-change-invalidating-dependent-value")
        for k in kinds:
            out.append((name, pk, k))
    return out


def _current(m, w, obj_name, attr):
    """Current value of an attribute: from the live object when there is one, else from the world / class defaults."""
    o = S.unwrap(m.objs.get(obj_name)) if m.objs.get(obj_name) is not None else None
    if o is not None and getattr(o, attr, None) is not None and hasattr(o, "calculated_attributes"):
        return getattr(o, attr)
    spec = w["objects"][obj_name]["attrs"].get(attr)
    if spec is not None:
        return W.mkval(spec)
    return W.get_cls(w["objects"][obj_name]["cls"]).default_values().get(attr)


def conditional_bad(m, w, obj_name, param, pk, kind):
    from efootprint.constants.units import u
    from efootprint.abstract_modeling_classes.source_objects import SourceValue, SourceObject
    cls = W.get_cls(w["objects"][obj_name]["cls"])
    clv = cls.conditional_list_values()
    if kind == "allowed-only-under-another-condition":
        rule = clv[param]
        cond = _current(m, w, obj_name, rule["depends_on"])
        lists = rule["conditional_list_values"]
        if cond is None or cond not in lists:
            raise LookupError("no constraint in this state")
        allowed = lists[cond]
        for c in sorted(lists, key=lambda x: str(x.value)):
            for v in lists[c]:
                if v not in allowed:
                    return SourceObject(v.value) if pk == "categorical" else v
        if pk.startswith("quantity"):
            v = SourceValue(4.0 * u.dimensionless)
            if v not in allowed:
                return v
        raise LookupError("every value is allowed")
    if kind == "condition-change-invalidating-dependent-value":
        for dep in cls.attributes_with_depending_values()[param]:
            cur = _current(m, w, obj_name, dep)
            lists = clv[dep]["conditional_list_values"]
            if cur is None:
                continue
            for c in sorted(lists, key=lambda x: str(x.value)):
                if cur not in lists[c]:
                    return SourceObject(c.value)
        raise LookupError("no condition value invalidates the current dependent values")
    raise ValueError(kind)


def make_bad(m, w, obj_name, param, pk, kind):
    """Build the invalid value for (param, kind). Returns the python value to pass/assign."""
    from efootprint.constants.units import u
    from efootprint.abstract_modeling_classes.source_objects import SourceValue, SourceObject
    if kind in ("allowed-only-under-another-condition", "condition-change-invalidating-dependent-value"):
        return conditional_bad(m, w, obj_name, param, pk, kind)
    spec = w["objects"][obj_name]["attrs"].get(param)
    cls = W.get_cls(w["objects"][obj_name]["cls"])
    if spec is None or spec[0] == "e":
        d = cls.default_values().get(param)
        spec = W.value_to_spec(d) if d is not None else None
        if spec is None or spec[0] == "e":
            spec = ["q", 3.0, "dimensionless"] if pk.startswith("quantity") else spec
    if pk.startswith("quantity"):
        unit = spec[2]
        mag = spec[1]
        if kind == "wrong-dimension":
            dim = u(unit).dimensionality
            for cand in ("watt", "second", "kilogram"):
                if u(cand).dimensionality != dim:
                    return SourceValue(3.0 * u(cand))
        if kind == "negative":
            return SourceValue((-abs(mag) if mag else -1.0) * u(unit))
        if kind == "plain-number":
            return 3.0
        if kind == "string":
            return "abc"
        if kind == "bare-pint-quantity":
            return 3.0 * u(unit)
        if kind == "hourly-instead-of-scalar":
            return W.mkval(["h", [1.0, 2.0], "2025-01-01 00:00", unit])
    if pk == "hourly":
        if kind == "scalar-instead-of-hourly":
            return SourceValue(3.0 * u(spec[3]))
        if kind == "plain-list":
            return [1.0, 2.0, 3.0]
        if kind == "string":
            return "abc"
        if kind.startswith("hourly-wrong-dimension"):
            return W.mkval(["h", spec[1], spec[2], "watt"])
    if pk == "categorical":
        if kind == "plain-string":
            return spec[1] if spec and spec[0] in ("c", "tz") else "abc"
        if kind == "plain-number":
            return 3.0
        if kind == "outside-allowed-list":
            return SourceObject("__not_an_allowed_value__")
        if kind == "quantity-instead-of-category":
            return SourceValue(1.0 * u.dimensionless)
    if pk == "link" or pk == "list":
        target_cls = None
        if kind in ("wrong-class-object", "list-containing-wrong-class-object"):
            ann = signature(cls.__init__).parameters[param].annotation
            inner = typing.get_args(ann)[0] if pk == "list" else ann
            for n2, o2 in m.objs.items():
                o2 = S.unwrap(o2)
                if not isinstance(o2, inner) and type(o2).__name__ not in ("System",):
                    target_cls = o2
                    break
            if pk == "link":
                return target_cls
            cur = [S.unwrap(x) for x in list.__iter__(getattr(S.unwrap(m.objs[obj_name]), param))]
            return cur + [target_cls]
        if kind == "string":
            return "abc"
        if kind == "explainable-quantity":
            return SourceValue(1.0 * u.dimensionless)
        if kind == "single-object-instead-of-list":
            cur = [S.unwrap(x) for x in list.__iter__(getattr(S.unwrap(m.objs[obj_name]), param))]
            return cur[0] if cur else None
        if kind == "list-containing-string":
            cur = [S.unwrap(x) for x in list.__iter__(getattr(S.unwrap(m.objs[obj_name]), param))]
            return cur + ["abc"]
    raise ValueError((param, pk, kind))


def kwargs_for(m, w, obj_name):
    kw = {}
    for a, v in w["objects"][obj_name]["attrs"].items():
        if v[0] == "link":
            kw[a] = S.unwrap(m.objs[v[1]])
        elif v[0] == "list":
            kw[a] = [S.unwrap(m.objs[x]) for x in v[1]]
        elif v[0] == "str":
            kw[a] = v[1]
        else:
            kw[a] = W.mkval(v)
    return kw


def run_construction(task):
    cls_name = task["cls"]
    fam, obj_name = WHERE[cls_name]
    res = {"violations": [], "counters": {}, "outcome": "ok", "n": 0, "refused": 0}
    for (param, pk, kind) in task["triples"]:
        w = W.family(fam)
        # build only what the object needs (its forward closure), not the object itself
        names = [n for n in W.reachable(w, obj_name, with_installed_services=False) if n != obj_name]
        m = _build_subset(w, names)
        kw = kwargs_for(m, w, obj_name)
        try:
            kw[param] = make_bad(_with_obj(m, w, obj_name), w, obj_name, param, pk, kind)
        except LookupError:
            res["counters"][f"not_applicable_at_construction:{cls_name}.{param}:{kind}"] = 1
            continue
        res["n"] += 1
        try:
            W.get_cls(cls_name)("probe", **kw)
            raised = None
        except Exception as ex:  # noqa
            raised = type(ex).__name__
        if raised is not None:
            res["refused"] += 1
            continue
        if kind.endswith("(logged-only)"):
            res["counters"][f"accepted_logged_only:{cls_name}.{param}:{kind}"] = 1
            continue
        res["violations"].append({"sig": {"clause": "invalid-value-accepted-at-construction", "cls": cls_name,
                                          "param": param, "kind": kind}, "detail": {}})
    return res


def _build_subset(w, names):
    order = [n for n in W.creation_order(w) if n in names]
    w2 = {"name": w["name"], "system": None, "objects": {n: w["objects"][n] for n in order}}
    return W.build(w2, order=order)


class _Wrap:
    def __init__(self, m, extra):
        self.objs = dict(m.objs)
        self.objs.update(extra)


def _with_obj(m, w, obj_name):
    """For make_bad's list/link helpers at construction: pretend the object exists with its spec'd lists."""
    class Fake:
        pass
    f = Fake()
    for a, v in w["objects"][obj_name]["attrs"].items():
        if v[0] == "list":
            setattr(f, a, [m.objs[x] for x in v[1]])
    return _Wrap(m, {obj_name: f})


def run_assignment(task):
    fam = task["world"]
    w0 = W.family(fam)
    res = {"violations": [], "counters": {}, "outcome": "ok", "n": 0, "refused": 0}
    m = None
    for (cls_name, obj_name, param, pk, kind, mode) in task["cases"]:
        if m is None:
            m, w, _ = H.setup({"world": fam, "perms": task.get("perms"), "history": task["history"]})
            base = c05.baseline_snapshots(m)
        o = S.unwrap(m.objs[obj_name])
        if not hasattr(o, param):
            continue
        try:
            bad = make_bad(m, w, obj_name, param, pk, kind)
        except Exception:  # noqa
            continue
        res["n"] += 1
        raised = None
        try:
            if mode == "single":
                setattr(o, param, bad)
            else:
                from efootprint.abstract_modeling_classes.modeling_update import ModelingUpdate
                companion, first = GROUPED_MODES[mode]
                v = VALID_OTHER[fam][companion]
                if (v[1], v[2]) == (obj_name, param):
                    continue
                valid = W.changes_live(m, [v])[0]
                invalid = [getattr(o, param), bad]
                ModelingUpdate([valid, invalid] if first else [invalid, valid])
        except Exception as ex:  # noqa
            raised = type(ex).__name__
        boot.set_ranks(m.ranks)
        sigbase = {"cls": cls_name, "param": param, "kind": kind, "mode": mode}
        if raised is None:
            if kind.endswith("(logged-only)"):
                res["counters"][f"accepted_logged_only:{cls_name}.{param}:{kind}"] = 1
            else:
                res["violations"].append({"sig": dict(sigbase, clause="invalid-value-accepted-on-assignment"),
                                          "detail": {"state_history": task["history"]}})
            m = None        # state changed by an accepted value: rebuild
            continue
        res["refused"] += 1
        if kind.endswith("(logged-only)"):
            m = None
            continue
        diffs = c05.compare_with_baseline(m, base)
        if diffs:
            res["violations"].append({"sig": dict(sigbase, clause="refused-edit-changed-the-model", what=diffs[0][0]),
                                      "detail": {"exception": raised, "state_history": task["history"],
                                                 "first_difference": [str(x)[:200] for x in diffs[0][1]],
                                                 "all_clauses": [d[0] for d in diffs]}})
            m = None
    return res


def run_task(task):
    return run_construction(task) if task["kind"] == "construction" else run_assignment(task)


def make_tasks(tier):
    boot.all_classes()
    tasks = []
    classes = list(WHERE)
    for cls_name in classes:
        ts = triples(cls_name)
        tasks.append({"kind": "construction", "cls": cls_name, "triples": ts})
    modes = ["single"] + list(GROUPED_MODES)
    for fam in ("W1", "W4"):
        for hist in (STATES[fam] if tier == "thorough" else STATES[fam][:4]):
            for mode in modes:
                for cls_name in classes:
                    if WHERE[cls_name][0] != fam:
                        continue
                    obj = WHERE[cls_name][1]
                    cases = [(cls_name, obj, p, pk, k, mode) for (p, pk, k) in triples(cls_name)]
                    # W4 builds cost seconds: keep one task per class and mode there; split W1 tasks further
                    chunk = 12 if fam == "W1" else 40
                    for i in range(0, len(cases), chunk):
                        tasks.append({"kind": "assignment", "world": fam, "perms": {}, "history": hist,
                                      "cases": cases[i:i + chunk]})
    return tasks


def main(tier):
    prepare()
    boot.all_classes()
    run = report.Run(PROP, tier)
    engine.start(run_task, warm=boot.warm_up)
    tasks = make_tasks(tier)
    results = engine.pmap(tasks)
    engine.check_results(results, run)
    engine.stop()
    n = refused = 0
    outcomes = {}
    for t, r in zip(tasks, results):
        if r.get("_timeout"):
            run.violation({"clause": "timeout", "kind": t["kind"]}, {"task": t, "size": 1})
            continue
        n += r["n"]
        refused += r["refused"]
        for c, k in r["counters"].items():
            run.count(c, k)
        for v in r["violations"]:
            # replayable single-case task
            if t["kind"] == "construction":
                sub = {"kind": "construction", "cls": t["cls"],
                       "triples": [x for x in t["triples"] if x[0] == v["sig"]["param"] and x[2] == v["sig"]["kind"]]}
            else:
                sub = dict(t, cases=[c for c in t["cases"] if c[2] == v["sig"]["param"] and c[4] == v["sig"]["kind"]])
            run.violation(v["sig"], {"task": sub, "detail": v["detail"], "size": len(t.get("history", [])) + 1})
            outcomes[v["sig"]["clause"]] = outcomes.get(v["sig"]["clause"], 0) + 1
    cov = {"states": len(tasks), "transitions": n, "traces_validated_against_impl": refused,
           "samples": [{"cls": tasks[0]["cls"], "triples": tasks[0]["triples"][:4]},
                       {"assignment_cases": [list(c) for c in tasks[-1]["cases"][:4]], "state_history": tasks[-1]["history"]}],
           "exhaustive": True, "invalid_values_tried": n, "refused": refused, "distinct_outcomes": 2 + len(outcomes),
           "bounds": "all 18 public classes x every __init__ parameter x applicable kinds; construction + assignment "
                     "(single, [valid, invalid], [invalid, valid]) in states " + json.dumps(STATES if tier == "thorough" else {k: v[:3] for k, v in STATES.items()})}
    return run.finish(cov, assumptions=[
        "any exception type counts as a refusal", "EmptyExplainableObject / None are accepted values for a quantity",
        "an hourly series in the wrong dimension is logged, not reported (the statement's 'quantity-valued parameter' is "
        "read as scalar quantity)"])


if __name__ == "__main__":
    try:
        sys.exit(main(sys.argv[1] if len(sys.argv) > 1 else "quick"))
    except engine.CrashError as e:
        print("HARNESS-ERROR", e)
        sys.exit(2)
