"""C15 — a failed recomputation can always be recovered from.

Histories mixing succeeding edits with *genuinely failing* edits (one family per raising update function and per way
of reaching it).  After the failing edit(s) the previous value(s) are re-assigned in reverse order; the live model must
then equal the model that existed before the failure (values, inputs, links, calculation graph) and a system freshly
built from the same inputs, the re-assignment must not raise, and every follow-up letter must behave as on a freshly
built system.
"""
import json
import sys

from efmc import boot, engine, report, world as W, snap as S, hist as H
from checks import c01

PROP = "C15"


def prepare():
    boot.install_seams()


def world_for(fam):
    """W1 / W3 + spares needed to reach failures through links and lists."""
    w = W.family(fam)
    W._std_storage(w, "st_bad")
    W.add(w, "sv_bad", "Server", storage=W.link("st_bad"), ram=W.Q(64, "gigabyte"), base_ram_consumption=W.Q(100, "gigabyte"))
    sv = "sv"
    W.add(w, "j_del", "Job", server=W.link(sv), data_stored=W.Q(-500, "megabyte"))
    W.add(w, "j_big", "Job", server=W.link(sv), ram_needed=W.Q(100, "gigabyte"), data_stored=W.Q(900, "gigabyte"))
    # keep System last
    s = w["objects"].pop("sys")
    w["objects"]["sys"] = s
    return w


def failing_letters(fam, w):
    names = W.reachable(w)
    jobs = [n for n in names if w["objects"][n]["cls"] == "Job"]
    steps = [n for n in names if w["objects"][n]["cls"] == "UsageJourneyStep"]
    j = jobs[0]
    sv = w["objects"][j]["attrs"]["server"][1]
    st = w["objects"][sv]["attrs"]["storage"][1]
    out = [
        ("available-ram", ["set", sv, "base_ram_consumption", ["q", 500.0, "gigabyte"]]),
        ("available-compute", ["set", sv, "base_compute_consumption", ["q", 500.0, "cpu_core"]]),
        ("negative-storage", ["set", j, "data_stored", ["q", -500.0, "megabyte"]]),
        ("storage-fixed-instances", ["multi", [["set", st, "fixed_nb_of_instances", ["q", 1.0, "dimensionless"]],
                                               ["set", j, "data_stored", ["q", 900.0, "gigabyte"]]]]),
        ("server-fixed-instances", ["multi", [["set", sv, "server_type", ["c", "on-premise"]],
                                              ["set", sv, "fixed_nb_of_instances", ["q", 1.0, "dimensionless"]],
                                              ["set", j, "ram_needed", ["q", 100.0, "gigabyte"]]]]),
        ("link-to-server-without-capacity", ["link", j, "server", "sv_bad"]),
        ("list-add-deleting-job", ["list", steps[0], "jobs", list(w["objects"][steps[0]]["attrs"]["jobs"][1]) + ["j_del"]]),
        ("list-append-deleting-job", ["lop", steps[0], "jobs", "append", ["j_del"]]),
        ("available-ram-then-other-value", ["set", sv, "base_ram_consumption", ["q", 500.0, "gigabyte"]]),
    ]
    if fam == "W3":
        out += [("on-premise-fixed-exceeded", ["set", "j3", "ram_needed", ["q", 200.0, "gigabyte"]]),
                ("storage-fixed-exceeded", ["set", "j3", "data_stored", ["q", 900.0, "gigabyte"]])]
    return out


def undo_letters(w, letter):
    """Re-assign the previous value(s), in reverse order, one assignment at a time."""
    subs = letter[1] if letter[0] == "multi" else [letter]
    out = []
    for s in reversed(subs):
        cur = w["objects"][s[1]]["attrs"][s[2]]
        if s[0] in ("set",):
            out.append(["set", s[1], s[2], cur])
        elif s[0] == "link":
            out.append(["link", s[1], s[2], cur[1]])
        elif s[0] in ("list", "lop"):
            out.append(["list", s[1], s[2], list(cur[1])])
    return out


def state_snapshots(m):
    objs = [S.unwrap(o) for o in m.objs.values()]
    return {"input": S.input_snapshot(objs), "value": S.value_snapshot(m.system), "graph": S.graph_snapshot(objs),
            "links": S.link_snapshot(objs)}


def compare_states(a, b):
    out = []
    d = S.plain_diff(a["input"], b["input"])
    if d:
        out.append(("input", d[0]))
    d = S.plain_diff(a["links"], b["links"])
    if d:
        out.append(("links", d[0]))
    d = S.diff(a["value"], b["value"], empty_entries_neutral=True)
    if d:
        out.append(("value", d[0]))
    d = [(k, a["graph"].get(k), b["graph"].get(k)) for k in sorted(set(a["graph"]) | set(b["graph"]), key=repr)
         if a["graph"].get(k) != b["graph"].get(k)]
    if d:
        out.append(("graph", d[0]))
    return out


def link_check(m, res, fam_names, stage):
    """Forward links and reverse look-ups must agree (same monitor as C16)."""
    from checks import c16
    seen = set()
    for clause, where, detail in c16.link_violations(m, c16.forward_links(m)):
        if clause == "object-in-two-systems" or (clause, where) in seen:
            continue
        seen.add((clause, where))
        res["violations"].append({"sig": {"clause": "links-inconsistent:" + clause, "failure": fam_names, "where": where,
                                          "stage": stage.split(":")[0]},
                                  "detail": {"what": detail, "stage": stage}})


def run_task(task):
    w = task["world_spec"] if "world_spec" in task else world_for(task["world"])
    perms = task.get("perms")
    m = W.build(w, perms=perms)
    res = {"violations": [], "counters": {}}
    for e in task.get("history", []):
        w = W.apply_spec(w, e)
        W.apply_live(m, e)
    boot.set_ranks(m.ranks)
    pre = state_snapshots(m)
    fails = task["fails"]
    fam_names = "+".join(k for k, _ in fails)
    undo = []
    n_raised = 0
    w_cur = w
    other_value = any(kind.endswith("then-other-value") for kind, _ in fails)
    for kind, f in fails:
        undo = undo_letters(w_cur, f) + undo
        try:
            W.apply_live(m, f)
            # the letter did not fail (e.g. a mutation removed the check): it is then an ordinary accepted edit
            try:
                w_cur = W.apply_spec(w_cur, f)
            except W.SpecRaise:
                pass
        except Exception as ex:  # noqa
            n_raised += 1
    res["outcome"] = f"failed:{n_raised}/{len(fails)}"
    if n_raised == 0:
        res["counters"]["failing_letter_did_not_fail:" + fam_names] = 1
        return res
    w_expected = w
    if other_value:
        # recover to *another* acceptable value than the previous one
        undo = [[u_[0], u_[1], u_[2], ["q", 1.0, "gigabyte"]] for u_ in undo]
        w_expected = W.apply_spec(w, undo[-1])
    # recovery: re-assign the previous values in reverse order
    for i, ul in enumerate(undo):
        try:
            W.apply_live(m, ul)
        except Exception as ex:  # noqa
            # intermediate steps of a multi-step recovery may legitimately still fail; the last one must not
            if i == len(undo) - 1:
                res["violations"].append({"sig": {"clause": "reassigning-previous-value-raises", "failure": fam_names,
                                                  "exc": type(ex).__name__},
                                          "detail": {"undo": undo, "exception": str(ex)[:200]}})
                return res
    boot.set_ranks(m.ranks)
    post = state_snapshots(m)
    if other_value:
        from checks import c08
        seen = set()
        for item in c08.graph_violations(S.system_objects(m.system), [S.unwrap(o) for o in m.objs.values()]):
            clause, where, d = item[0], item[1], item[2]
            if (clause, where) not in seen:
                seen.add((clause, where))
                res["violations"].append({"sig": {"clause": "graph-after-recovery:" + clause, "failure": fam_names, "where": where},
                                          "detail": {"other_end": d}})
    for what, first in ([] if other_value else compare_states(pre, post)):
        k = first[0]
        o = m.objs.get(k[0]) if isinstance(k, tuple) else None
        where = S.class_attr(S.unwrap(o), k[1]) if o is not None and len(k) > 1 and isinstance(k[1], str) else str(k)[:40]
        res["violations"].append({"sig": {"clause": "not-restored:" + what, "failure": fam_names, "where": where},
                                  "detail": {"first_difference": [str(x)[:300] for x in first]}})
    w = w_expected
    link_check(m, res, fam_names, "after-recovery")
    fr = c01.fresh_snapshot(w, perms)
    boot.set_ranks(m.ranks)
    if fr[0] == "ok":
        d = S.diff(post["value"], fr[1], empty_entries_neutral=True)
        if d:
            res["violations"].append({"sig": {"clause": "recovered-differs-from-fresh-build", "failure": fam_names,
                                              "where": f"{d[0][0][1]}"},
                                      "detail": {"first": [str(x)[:300] for x in d[0]]}})
    # follow-up letter: must behave as on a fresh build
    g = task.get("followup")
    if g is not None and not res["violations"]:
        try:
            w2 = W.apply_spec(w, g)
        except W.SpecRaise:
            return res
        live_exc = None
        try:
            W.apply_live(m, g)
        except Exception as ex:  # noqa
            live_exc = type(ex).__name__
        boot.set_ranks(m.ranks)
        lc = engine.letter_class(g, w)
        # the same letter on a freshly built live system with the same inputs
        m3 = W.build(w, perms=perms)
        ref_exc = None
        try:
            W.apply_live(m3, g)
        except Exception as ex:  # noqa
            ref_exc = type(ex).__name__
        if live_exc is None and ref_exc is None:
            boot.set_ranks(m.ranks)
            d = S.diff(S.value_snapshot(m.system), S.value_snapshot(m3.system), empty_entries_neutral=True)
            if d:
                objs = S.system_objects(m.system)
                rank = S.canonical_rank(objs)
                first = min(d, key=lambda t: (rank.get(t[0], (99, 99)), t[0]))
                o = m.objs.get(first[0][0])
                res["violations"].append({
                    "sig": {"clause": "followup-differs-from-freshly-built-system", "failure": fam_names, "letter": lc,
                            "first_divergent": S.class_attr(S.unwrap(o), first[0][1]) if o is not None else "?"},
                    "detail": {"first": [str(x)[:300] for x in first], "n": len(d)}})
            link_check(m, res, fam_names, "after-followup:" + lc)
            res["followup"] = "accepted"
        elif (live_exc is None) != (ref_exc is None):
            res["violations"].append({"sig": {"clause": "followup-accepted-on-one-side-only", "failure": fam_names,
                                              "letter": lc, "recovered": str(live_exc), "fresh": str(ref_exc)},
                                      "detail": {"letter": g}})
            res["followup"] = "one-sided"
        else:
            res["followup"] = "both-raise"
    res["vdigest"] = S.digest(post["value"], 8)
    return res


def followups(fam, w):
    w0 = world_for(fam)
    out = c01.core_alphabet(w, w0)
    for n in W.reachable(w):
        o = w["objects"][n]
        if o["cls"] == "UsageJourneyStep" and len(o["attrs"]["jobs"][1]) > 1:
            out.append(["lop", n, "jobs", "pop", []])
    return out


TIERS = {"quick": {"worlds": [("W1", "rev"), ("W3", "default")], "pre": 1, "double": True, "followup_stride": 4},
         "thorough": {"worlds": [("W1", "rev"), ("W3", "rev")], "pre": 4, "double": True, "followup_stride": 1}}
PRE_HISTORIES = {
    "W1": [[], [["link", "j1", "server", "sv_b"]], [["set", "sv", "server_type", ["c", "serverless"]]],
           [["list", "uj", "uj_steps", ["s2", "s1", "s3"]]]],
    "W3": [[], [["set", "j1", "request_duration", ["q", 61.0, "minute"]]], [["link", "up2", "network", "nw"]],
           [["set", "sv", "server_type", ["c", "serverless"]]]]}


def make_tasks(tier):
    cfg = TIERS[tier]
    tasks = []
    for fam, sched in cfg["worlds"]:
        w = world_for(fam)
        scheds = [{}, H.reversed_schedule(w)] if sched == "rev" else [{}]
        for perms in scheds:
            for hist in PRE_HISTORIES[fam][:cfg["pre"]]:
                wh = H.fold_spec(w, hist)
                fl = failing_letters(fam, wh)
                combos = [[f] for f in fl]
                if cfg["double"]:
                    combos += [[f, f] for f in fl[:3]] + [[fl[0], fl[2]], [fl[2], fl[0]], [fl[5], fl[0]], [fl[1], fl[3]]]
                fu = followups(fam, wh)
                for ci, combo in enumerate(combos):
                    tasks.append({"world": fam, "perms": perms, "history": hist, "fails": combo, "followup": None})
                    for gi, g in enumerate(fu):
                        if (gi + ci) % cfg["followup_stride"] == 0 or len(combo) == 1 and tier == "thorough":
                            tasks.append({"world": fam, "perms": perms, "history": hist, "fails": combo, "followup": g})
    return tasks


def main(tier):
    prepare()
    run = report.Run(PROP, tier)
    engine.start(run_task, warm=boot.warm_up)
    tasks = make_tasks(tier)
    results = engine.pmap(tasks)
    engine.check_results(results, run)
    engine.stop()
    outcomes, digests, fups = {}, set(), {}
    for t, r in zip(tasks, results):
        if r.get("_timeout"):
            run.violation({"clause": "timeout", "failure": "+".join(k for k, _ in t["fails"])},
                          {"task": t, "size": len(t["history"]) + len(t["fails"]) + 1})
            continue
        outcomes[r["outcome"]] = outcomes.get(r["outcome"], 0) + 1
        if r.get("followup"):
            fups[r["followup"]] = fups.get(r["followup"], 0) + 1
        if r.get("vdigest"):
            digests.add(r["vdigest"])
        for c, n in r.get("counters", {}).items():
            run.count(c, n)
        for v in r["violations"]:
            run.violation(v["sig"], {"task": t, "detail": v["detail"],
                                     "size": len(t["history"]) + len(t["fails"]) + (1 if t.get("followup") else 0)})
    cov = {"states": len(tasks), "transitions": sum(len(t["history"]) + 2 * len(t["fails"]) + (1 if t["followup"] else 0) for t in tasks),
           "traces_validated_against_impl": len(tasks), "samples": [tasks[0], tasks[1], tasks[-1]], "exhaustive": True,
           "outcomes": outcomes, "followup_outcomes": fups, "distinct_outcomes": len(digests) + len(outcomes),
           "bounds": f"worlds {TIERS[tier]['worlds']}, {TIERS[tier]['pre']} pre-histories, one failing family per raising update "
                     f"function / way of reaching it (+ repeated and mixed double failures), follow-up letters = C01 core alphabet "
                     f"(stride {TIERS[tier]['followup_stride']})"}
    return run.finish(cov, assumptions=[
        "failure points are reached with genuinely failing inputs only (no fault injection)",
        "recovery = re-assigning the previous value of every changed attribute, in reverse order, one at a time"])


if __name__ == "__main__":
    try:
        sys.exit(main(sys.argv[1] if len(sys.argv) > 1 else "quick"))
    except engine.CrashError as e:
        print("HARNESS-ERROR", e)
        sys.exit(2)
