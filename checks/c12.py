"""C12 — footprints respond to each driver in the documented proportion.

Bounded exhaustive enumeration on the real library code: worlds W1..W4 (and input variants of them) x every object x
every cost driver named in the statement x k in {0.5, 2, 3}, one driver at a time, in two modes (a system freshly
built with the scaled input; a live assignment on a built system).  The oracle is a table written from the
statement: driver -> the footprints that are multiplied by k (or 1/k); every other footprint is unchanged, hour by
hour.

Additive drivers (one device among several of a pattern, one job among several of a network, one country among
several of a network): the footprint F is a sum of contributions; at an hour where every contributor is scaled F is
multiplied by k, where none is scaled F is unchanged, and at a *mixed* hour only a share B(h) of F responds:
F_k = F_1 + (k - 1) B with 0 < B < F_1, the same B for every k (B is read off k = 2 and must predict k = 0.5 and 3).
DESIGN's "scale all contributors at once" is the special case without mixed hours; it is enumerated too.
"""
import json
import sys

import numpy as np

from efmc import boot, engine, report, world as W, snap as S

PROP = "C12"
KS = [0.5, 2.0, 3.0]
KS_BY_TIER = {"quick": KS, "thorough": [0.25, 0.5, 2.0, 3.0, 10.0]}
K0 = 2.0           # the k from which the share of a mixed hour is read
RTOL, ATOL = S.RTOL, S.ATOL

FOOT = ("energy_footprint", "instances_fabrication_footprint", "devices_energy_footprint",
        "devices_fabrication_footprint")
SERVER_CLS = ("Server", "GPUServer", "BoaviztaCloudServer")
JOB_CLS = ("Job", "GpuJob", "VideoStreamingJob", "WebApplicationJob", "GenAIJob")
JOB_LOAD = ("hourly_occurrences_per_usage_pattern", "hourly_avg_occurrences_per_usage_pattern",
            "hourly_data_transferred_per_usage_pattern", "hourly_data_stored_per_usage_pattern",
            "hourly_occurrences_across_usage_patterns", "hourly_avg_occurrences_across_usage_patterns",
            "hourly_data_transferred_across_usage_patterns", "hourly_data_stored_across_usage_patterns")
UP_LOAD = ("utc_hourly_usage_journey_starts", "nb_usage_journeys_in_parallel", "devices_energy")
SERVER_LOAD = ("hour_by_hour_ram_need", "hour_by_hour_compute_need", "raw_nb_of_instances")
SERVERLESS_ONLY = ("nb_of_instances", "instances_energy", "energy_footprint", "instances_fabrication_footprint")
DEVICE_ENERGY_KEYS = ("devices_energy_footprint", "energy_footprint")
DEVICE_FAB_KEYS = ("devices_fabrication_footprint", "instances_fabrication_footprint")

_base_cache = {}


def prepare():
    boot.install_seams()


def warm():
    boot.warm_up()
    W.build(W.family("W4"))     # imports every builder class once, before the fork


# ------------------------------------------------------------------------------------------------ worlds
def make_world(fam, variant):
    """Input variants of the families (no object is added):
    tuned  — every storage has a non-zero idle power (otherwise the idle term of the storage energy is 0 and
             the PUE factor applied to it cannot be observed); servers and storages have different lifespans;
    mixnet — one network carries usage patterns of two countries."""
    w = W.family(fam)
    parts = variant.split("+")
    if "tuned" in parts:
        i = 0
        for n, o in w["objects"].items():
            if o["cls"] == "Storage":
                o["attrs"]["idle_power"] = W.Q(0.2 + 0.1 * i, "watt")
                o["attrs"]["lifespan"] = W.Q(4 + i, "year")
                i += 1
    if "mixnet" in parts:
        if fam == "W1":
            # same network, two countries, *overlapping* windows (mixed hours); W2/W3: disjoint windows
            w["objects"]["up2"]["attrs"]["country"] = W.link("c_b")
            w["objects"]["c_b"]["attrs"]["timezone"] = ["tz", "Europe/London"]
        elif fam == "W2":
            w["objects"]["up2"]["attrs"]["network"] = W.link("nw")
        elif fam == "W3":
            w["objects"]["up3"]["attrs"]["country"] = W.link("c_b")
        else:
            raise ValueError(f"no mixnet variant of {fam}")
    w["name"] = f"{fam}/{variant}"
    return w


class Topo:
    """Spec-level topology of a world (reference model: no library object is consulted)."""

    def __init__(self, w):
        o = w["objects"]
        self.w = w
        self.cls = {n: o[n]["cls"] for n in o}
        self.ups = list(o[w["system"]]["attrs"]["usage_patterns"][1])
        self.up_jobs, self.up_devices, self.up_network, self.up_country = {}, {}, {}, {}
        for up in self.ups:
            a = o[up]["attrs"]
            jobs = []
            for s in o[a["usage_journey"][1]]["attrs"]["uj_steps"][1]:
                for j in o[s]["attrs"]["jobs"][1]:
                    if j not in jobs:
                        jobs.append(j)
            self.up_jobs[up] = jobs
            self.up_devices[up] = list(a["devices"][1])
            self.up_network[up] = a["network"][1]
            self.up_country[up] = a["country"][1]
        self.net_ups = {}
        for up in self.ups:
            self.net_ups.setdefault(self.up_network[up], []).append(up)
        self.servers = [n for n in o if self.cls[n] in SERVER_CLS]
        self.storages = [n for n in o if self.cls[n] == "Storage"]
        self.networks = [n for n in o if self.cls[n] == "Network"]
        self.countries = [n for n in o if self.cls[n] == "Country"]
        self.devices = [n for n in o if self.cls[n] == "Device"]
        self.jobs = [n for n in o if self.cls[n] in JOB_CLS]
        self.storage_of = {sv: o[sv]["attrs"]["storage"][1] for sv in self.servers}
        self.serverless = {sv: o[sv]["attrs"]["server_type"][1] == "serverless" for sv in self.servers}
        self.reach = set(W.reachable(w))

    def linked(self, a, b):
        for x, y in ((a, b), (b, a)):
            for v in self.w["objects"][x]["attrs"].values():
                if (v[0] == "link" and v[1] == y) or (v[0] == "list" and y in v[1]):
                    return True
        return False


def _components(groups):
    """Connected components of a family of overlapping sets (lists of names)."""
    comps = []
    for g in groups:
        g = set(g)
        merged = [c for c in comps if c & g]
        for c in merged:
            g |= c
            comps.remove(c)
        comps.append(g)
    return comps


def _subsets(singles, groups):
    """Singles first, then each group, then the connected components; de-duplicated, each as a sorted list."""
    out, seen = [], set()
    for s in [[x] for x in singles] + [list(g) for g in groups] + [list(c) for c in _components(groups)]:
        k = tuple(sorted(s))
        if k and k not in seen:
            seen.add(k)
            out.append(list(k))
    return out


def drivers(w, tier="quick", only_kinds=None):
    """Every (set of) input(s) named by the statement, with the exponent e (+1: footprints x k, -1: footprints / k)."""
    t = Topo(w)
    o = w["objects"]
    out, notes = [], []

    def add(kind, label, inputs, e=1, scope="single"):
        out.append({"kind": kind, "label": label, "inputs": [list(i) for i in inputs], "e": e, "scope": scope})

    for sv in t.servers:
        a, c = o[sv]["attrs"], t.cls[sv]
        add("server-energy", f"{c}.power_usage_effectiveness", [(sv, "power_usage_effectiveness")])
        add("server-energy", f"{c}.average_carbon_intensity", [(sv, "average_carbon_intensity")])
        if "carbon_footprint_fabrication" in a:
            add("infra-fab", f"{c}.carbon_footprint_fabrication", [(sv, "carbon_footprint_fabrication")])
        elif c == "GPUServer":
            add("infra-fab", f"{c}.carbon_footprint_fabrication_without_gpu+per_gpu",
                [(sv, "carbon_footprint_fabrication_without_gpu"), (sv, "carbon_footprint_fabrication_per_gpu")])
        else:
            notes.append(f"{c} {sv}: unit fabrication footprint is not an input (read from the Boavizta data): skipped")
        add("infra-fab", f"{c}.lifespan", [(sv, "lifespan")], e=-1)
    for st in t.storages:
        add("infra-fab", "Storage.carbon_footprint_fabrication_per_storage_capacity",
            [(st, "carbon_footprint_fabrication_per_storage_capacity")])
        add("infra-fab", "Storage.lifespan", [(st, "lifespan")], e=-1)
    for nw in t.networks:
        add("network-bw", "Network.bandwidth_energy_intensity", [(nw, "bandwidth_energy_intensity")])
    # data transferred: each job alone, all jobs of a network, connected components
    has_dt = [j for j in t.jobs if "data_transferred" in o[j]["attrs"]]
    groups = []
    for nw, ups in t.net_ups.items():
        g = sorted({j for up in ups for j in t.up_jobs[up]})
        if all(j in has_dt for j in g):
            groups.append(g)
        else:
            notes.append(f"network {nw}: data_transferred of {[j for j in g if j not in has_dt]} is calculated, "
                         f"'all jobs of the network at once' skipped (single jobs are still scaled)")
    for s in _subsets(has_dt, groups):
        add("job-data", "Job.data_transferred", [(j, "data_transferred") for j in s],
            scope="single" if len(s) == 1 else "group")
    cs = _subsets(t.countries, [t.countries] if tier == "thorough" and len(t.countries) > 1 else [])
    for s in cs:
        add("country", "Country.average_carbon_intensity", [(c, "average_carbon_intensity") for c in s],
            scope="single" if len(s) == 1 else "group")
    dev_groups = [t.up_devices[up] for up in t.ups]
    for attr, e in (("power", 1), ("carbon_footprint_fabrication", 1), ("lifespan", -1),
                    ("fraction_of_usage_time", -1)):
        for s in _subsets(t.devices, dev_groups):
            add("device-energy" if attr == "power" else "device-fab", f"Device.{attr}", [(d, attr) for d in s], e=e,
                scope="single" if len(s) == 1 else "group")
    add("traffic", "UsagePattern.hourly_usage_journey_starts[all]",
        [(up, "hourly_usage_journey_starts") for up in t.ups], scope="all")
    if only_kinds is not None:
        out = [d for d in out if d["kind"] in only_kinds]
    if tier != "thorough":
        # spare objects (outside the system: every footprint must stay unchanged) are left to the thorough tier
        out = [d for d in out if any(n in t.reach for n, _ in d["inputs"])]
    return out, notes


def scaled_value(v, k):
    if v[0] == "q":
        return ["q", v[1] * k, v[2]]
    if v[0] == "h":
        return ["h", [x * k for x in v[1]], v[2], v[3]]
    raise ValueError(f"cannot scale {v}")


def scaled_letters(w, drv, k):
    return [["set", n, a, scaled_value(w["objects"][n]["attrs"][a], k)] for n, a in drv["inputs"]]


# ------------------------------------------------------------------------------------------------ oracle table
def _nz_times(c):
    if c[0] != "H" or len(c[4]) == 0:
        return set()
    mx = float(np.max(np.abs(c[4])))
    if mx == 0.0:
        return set()
    return {int(ts) for ts, v in zip(c[3], c[4]) if abs(v) > 1e-12 * mx}


def network_contributors(t, base, nw):
    """[(job, pattern, mask over the hours of the network footprint)]: hours at which the job transfers data for the
    pattern (read from the library's own per-pattern series, which no scaled driver except data/traffic touches)."""
    f = base.get((nw, "energy_footprint"))
    if f is None or f[0] != "H":
        return None
    out = []
    for up in t.net_ups.get(nw, []):
        for j in t.up_jobs[up]:
            d = base.get((j, "hourly_data_transferred_per_usage_pattern"), ("D", ()))
            series = dict(d[1]).get(up, ("E",)) if d[0] == "D" else ("E",)
            times = _nz_times(series)
            out.append((j, up, np.array([int(ts) in times for ts in f[3]], dtype=bool)))
    return out


def _qty(v):
    return W.mkval(v).value.to_base_units().magnitude


def device_weight(w, d, kind):
    a = w["objects"][d]["attrs"]
    if kind == "device-energy":
        return _qty(a["power"])
    return _qty(a["carbon_footprint_fabrication"]) / (_qty(a["lifespan"]) * _qty(a["fraction_of_usage_time"]))


def expectation(w, t, drv, base):
    """-> (rules, compared keys).  rules[key] = ("mul", e) | ("hours", e, n_in, n_out) | ("share", e, fraction)
    | ("skip",); a compared key without a rule must be unchanged."""
    kind, e = drv["kind"], drv["e"]
    objs = sorted({n for n, _ in drv["inputs"]})
    rules = {}
    keys = [k for k in base if k[1] in FOOT]
    if kind == "server-energy":
        sv = objs[0]
        rules[(sv, "energy_footprint")] = ("mul", 1)
        rules[(t.storage_of[sv], "energy_footprint")] = ("mul", 1)
    elif kind == "infra-fab":
        rules[(objs[0], "instances_fabrication_footprint")] = ("mul", e)
    elif kind == "network-bw":
        rules[(objs[0], "energy_footprint")] = ("mul", 1)
    elif kind in ("job-data", "country"):
        if kind == "country":
            for up in t.ups:
                if t.up_country[up] in objs:
                    for a in DEVICE_ENERGY_KEYS:
                        rules[(up, a)] = ("mul", 1)
        for nw in t.net_ups:
            contrib = network_contributors(t, base, nw)
            if contrib is None:
                continue
            n = len(base[(nw, "energy_footprint")][3])
            n_in, n_out = np.zeros(n, dtype=int), np.zeros(n, dtype=int)
            for j, up, mask in contrib:
                inside = (j in objs) if kind == "job-data" else (t.up_country[up] in objs)
                if inside:
                    n_in += mask
                else:
                    n_out += mask
            if n_in.any():
                rules[(nw, "energy_footprint")] = ("hours", 1, n_in, n_out)
    elif kind in ("device-energy", "device-fab"):
        for up in t.ups:
            devs = t.up_devices[up]
            inside = [d for d in devs if d in objs]
            if not inside:
                continue
            for a in (DEVICE_ENERGY_KEYS if kind == "device-energy" else DEVICE_FAB_KEYS):
                if len(inside) == len(devs):
                    rules[(up, a)] = ("mul", e)
                else:
                    tot = sum(device_weight(w, d, kind) for d in devs)
                    rules[(up, a)] = ("share", e, sum(device_weight(w, d, kind) for d in inside) / tot)
    elif kind == "traffic":
        keys = list(keys)
        for up in t.ups:
            for a in UP_LOAD + DEVICE_ENERGY_KEYS + DEVICE_FAB_KEYS:
                rules[(up, a)] = ("mul", 1)
            keys += [(up, a) for a in UP_LOAD]
        for j in t.jobs:
            if j in t.reach:
                for a in JOB_LOAD:
                    rules[(j, a)] = ("mul", 1)
            keys += [(j, a) for a in JOB_LOAD]
        for nw in t.net_ups:
            rules[(nw, "energy_footprint")] = ("mul", 1)
        for sv in t.servers:
            if sv in t.reach:
                for a in SERVER_LOAD:
                    rules[(sv, a)] = ("mul", 1)
                for a in SERVERLESS_ONLY:
                    # autoscaling / on-premise: whole instances (ceil) or a fixed number: not proportional
                    rules[(sv, a)] = ("mul", 1) if t.serverless[sv] else ("skip",)
            keys += [(sv, a) for a in SERVER_LOAD + SERVERLESS_ONLY if (sv, a) not in keys]
        for st in t.storages:
            if st in t.reach:
                for a in ("energy_footprint", "instances_fabrication_footprint"):
                    rules[(st, a)] = ("skip",)     # whole storage units (ceil)
    else:
        raise ValueError(kind)
    seen, ordered = set(), []
    for k in keys:
        if k in base and k not in seen:
            seen.add(k)
            ordered.append(k)
    return rules, ordered


# ------------------------------------------------------------------------------------------------ comparison
def scale(c, f):
    t = c[0]
    if t == "Q":
        return ("Q", c[1], c[2] * f)
    if t == "H":
        return ("H", c[1], c[2], c[3], c[4] * f)
    if t == "D":
        return ("D", tuple((k, scale(x, f)) for k, x in c[1]))
    return c


def _close_arr(x, y):
    return bool(np.all(np.abs(x - y) <= ATOL + RTOL * np.maximum(np.abs(x), np.abs(y))))


def classify(f1, fk, k):
    if S.close(fk, f1):
        return "unchanged"
    if S.close(fk, scale(f1, k)):
        return "scaled-by-k"
    if S.close(fk, scale(f1, 1.0 / k)):
        return "scaled-by-1/k"
    if f1[0] != fk[0]:
        return "kind-changed"
    return "other"


def is_nonzero(c):
    if c[0] == "Q":
        return c[2] != 0
    if c[0] == "H":
        return bool(np.any(c[4] != 0))
    if c[0] == "D":
        return any(is_nonzero(x) for _, x in c[1])
    return False


def same_hours(f1, fk):
    return fk[0] == "H" and f1[0] == "H" and fk[1] == f1[1] and fk[2] == f1[2] and len(fk[3]) == len(f1[3]) \
        and bool(np.array_equal(fk[3], f1[3]))


def check_key(rule, f1, fks):
    """-> list of (clause, k, observed) failures for one footprint; counts of hours per kind."""
    fails = []
    hours = {"full": 0, "same": 0, "mixed": 0, "mixed_unchecked": 0}
    kind = rule[0]
    if kind == "same":
        for k, fk in fks.items():
            if not S.close(fk, f1):
                fails.append(("unchanged", k, classify(f1, fk, k)))
        return fails, hours
    e = rule[1]
    if kind == "mul":
        for k, fk in fks.items():
            if not S.close(fk, scale(f1, k ** e)):
                fails.append(("scaled-by-k" if e > 0 else "scaled-by-1/k", k, classify(f1, fk, k)))
        return fails, hours
    # per-hour rules
    if f1[0] != "H":
        for k, fk in fks.items():
            if not S.close(fk, f1):
                fails.append(("unchanged", k, classify(f1, fk, k)))
        return fails, hours
    for k, fk in fks.items():
        if not same_hours(f1, fk):
            fails.append(("hours-changed", k, classify(f1, fk, k)))
    if fails:
        return fails, hours
    a1 = f1[4]
    n = len(a1)
    share = None
    if kind == "hours":
        n_in, n_out = rule[2], rule[3]
        full = n_out == 0
        same = (n_in == 0) & (n_out > 0)
        mixed = (n_in > 0) & (n_out > 0)
    else:  # "share": every hour is mixed, the fraction is known from the inputs
        full = np.zeros(n, dtype=bool)
        same = np.zeros(n, dtype=bool)
        mixed = np.ones(n, dtype=bool)
        share = rule[2]
    hours.update(full=int(full.sum()), same=int(same.sum()), mixed=int(mixed.sum()))
    for k, fk in fks.items():
        ak = fk[4]
        if not _close_arr(ak[full], a1[full] * k ** e):
            fails.append(("scaled-by-k" if e > 0 else "scaled-by-1/k", k, classify(f1, fk, k)))
        if not _close_arr(ak[same], a1[same]):
            fails.append(("unchanged", k, classify(f1, fk, k)))
    if mixed.any() and K0 in fks:
        b = (fks[K0][4] - a1) / (K0 ** e - 1.0)
        sel = mixed & (a1 > 1e3 * ATOL)
        hours["mixed_unchecked"] = int((mixed & ~sel).sum())
        if not bool(np.all(b[sel] > 1e-9 * a1[sel])):
            fails.append(("share-not-positive", K0, classify(f1, fks[K0], K0)))
        if not bool(np.all(a1[sel] - b[sel] > 1e-9 * a1[sel])):
            fails.append(("share-not-partial", K0, classify(f1, fks[K0], K0)))
        for k, fk in fks.items():
            pred = a1 + (k ** e - 1.0) * b
            if k != K0 and not _close_arr(fk[4][mixed], pred[mixed]):
                fails.append(("share-not-constant-in-k", k, classify(f1, fk, k)))
        if share is not None and not bool(np.all(np.abs(b[mixed] - share * a1[mixed]) <= ATOL + RTOL * np.abs(a1[mixed]))):
            fails.append(("share-value", K0, classify(f1, fks[K0], K0)))
    return fails, hours


def relation(t, drv, key):
    objs = {n for n, _ in drv["inputs"]}
    if key[0] in objs:
        return "self"
    if any(t.linked(key[0], n) for n in objs):
        return "linked"
    return "indirect"


# ------------------------------------------------------------------------------------------------ execution
def observe(m):
    return S.value_snapshot(m.system, list(m.objs.values()))


def base_of(fam, variant):
    key = (fam, variant)
    r = _base_cache.get(key)
    if r is None:
        w = make_world(fam, variant)
        r = (w, observe(W.build(w)))
        _base_cache[key] = r
    return r


def refusal_class(ex):
    msg = str(ex)
    if "negative cumulative storage need" in msg:
        return "ValueError-negative-cumulative-storage"
    return type(ex).__name__


def run_case(fam, variant, drv, mode, ks):
    """One driver, every k, one mode.  -> dict(outcome, violations, counters, sample)."""
    w, base = base_of(fam, variant)
    t = Topo(w)
    res = {"violations": [], "counters": {}, "compared": 0, "executions": 0}
    afters = {}
    refused = {}
    if mode == "fresh":
        before = base
        for k in ks:
            w2 = w
            for e in scaled_letters(w, drv, k):
                w2 = W.apply_spec(w2, e)
            try:
                afters[k] = observe(W.build(w2))
                res["executions"] += 1
            except Exception as ex:  # noqa
                refused[k] = refusal_class(ex)
    else:
        m = W.build(w)
        before = observe(m)
        for k in ks:
            letters = scaled_letters(w, drv, k)
            try:
                if mode == "live-multi":
                    W.apply_live(m, ["multi", letters])
                else:
                    for e in letters:
                        W.apply_live(m, e)
                afters[k] = observe(m)
                res["executions"] += 1
            except Exception as ex:  # noqa
                refused[k] = refusal_class(ex)
                m = W.build(w)      # a refused assignment may leave the model half-updated: start again
    for k, why in refused.items():
        # not a C12 matter (C04 / C14 own spurious rejections); logged so that the loss of coverage is visible
        res["counters"][f"scaled_input_refused:{mode}:{drv['label']}:k={k}:{why}"] = 1
    ks = [k for k in ks if k in afters]
    if not ks:
        res["outcome"] = f"refused:{mode}:" + ",".join(sorted(set(refused.values())))
        return res
    rules, keys = expectation(w, t, drv, before)
    n = {"mul": 0, "hours": 0, "share": 0, "same": 0, "skip": 0}
    hours_tot = {"full": 0, "same": 0, "mixed": 0, "mixed_unchecked": 0}
    effective = False
    sample = None
    for key in keys:
        rule = rules.get(key, ("same",))
        n[rule[0]] += 1
        if rule[0] == "skip":
            continue
        f1 = before[key]
        fks = {k: afters[k].get(key, ("N",)) for k in ks}
        fails, hours = check_key(rule, f1, fks)
        res["compared"] += len(ks)
        for h in hours_tot:
            hours_tot[h] += hours[h]
        if rule[0] != "same" and is_nonzero(f1):
            effective = True
            if sample is None and K0 in fks:
                sample = {"footprint": f"{key[0]}.{key[1]}", "rule": rule[0] + (f"^{rule[1]}" if len(rule) > 1 else ""),
                          "before": S.render(f1, 3), f"after_k={K0}": S.render(fks[K0], 3)}
        if fails:
            o = w["objects"]
            # one signature per (clause, observed) of this footprint
            seen = set()
            for clause, k, observed in fails:
                if (clause, observed) in seen:
                    continue
                seen.add((clause, observed))
                byname_cls = o[key[0]]["cls"]
                res["violations"].append({
                    "sig": {"clause": clause, "driver": drv["label"], "scope": drv["scope"],
                            "footprint": f"{byname_cls}.{key[1]}", "relation": relation(t, drv, key),
                            "observed": observed, "mode": mode},
                    "detail": {"world": w["name"], "inputs": drv["inputs"], "k": k, "mode": mode,
                               "footprint": f"{key[0]}.{key[1]}", "expected_rule": rule[0],
                               "before": S.render(f1, 8), "after": S.render(fks[k], 8),
                               "all_failing_k": sorted({kk for c, kk, ob in fails if c == clause})}})
    spare = not any(nm in t.reach for nm, _ in drv["inputs"])
    if not effective:
        res["counters"]["cases_without_a_nonzero_driven_footprint" + (":spare-object" if spare else ":in-system")] = 1
    res["outcome"] = (("violated" if res["violations"] else "held")
                      + f" xk={n['mul']} hourly={n['hours']} share={n['share']} same={n['same']} skip={n['skip']}"
                      + f" hours(full/same/mixed)={hours_tot['full']}/{hours_tot['same']}/{hours_tot['mixed']}"
                      + ("" if effective else " vacuous")
                      + ("" if not refused else f" refused_k={sorted(refused)}"))
    res["hours"] = hours_tot
    res["sample"] = sample
    res["digest"] = S.digest({k: afters[K0][k] for k in keys}, 8) if K0 in afters else None
    return res


def run_task(task):
    out = {"violations": [], "counters": {}, "cases": []}
    ks = task.get("ks", KS)
    for i, case in enumerate(task["cases"]):
        r = run_case(task["fam"], task["variant"], case["driver"], case["mode"], ks)
        for v in r["violations"]:
            v["case"] = i
            out["violations"].append(v)
        for c, x in r["counters"].items():
            out["counters"][c] = out["counters"].get(c, 0) + x
        out["cases"].append({"outcome": r["outcome"], "compared": r["compared"], "executions": r["executions"],
                             "sample": r.get("sample"), "digest": r.get("digest"), "hours": r.get("hours")})
    out["outcome"] = "violated" if out["violations"] else "held"
    return out


# ------------------------------------------------------------------------------------------------ campaigns
MIX_KINDS = ("country", "job-data", "network-bw", "traffic")
CAMPAIGNS = {
    "quick": [("W1", "tuned", None), ("W2", "tuned", None), ("W3", "tuned", None), ("W4", "tuned", None),
              ("W1", "tuned+mixnet", MIX_KINDS), ("W2", "tuned+mixnet", MIX_KINDS), ("W3", "tuned+mixnet", MIX_KINDS)],
    "thorough": [("W0", "base", None), ("W1", "base", None), ("W2", "base", None), ("W3", "base", None),
                 ("W4", "base", None),
                 ("W0", "tuned", None), ("W1", "tuned", None), ("W2", "tuned", None), ("W3", "tuned", None),
                 ("W4", "tuned", None),
                 ("W1", "tuned+mixnet", None), ("W2", "tuned+mixnet", None), ("W3", "tuned+mixnet", None),
                 ("W1", "mixnet", MIX_KINDS), ("W2", "mixnet", MIX_KINDS), ("W3", "mixnet", MIX_KINDS)],
}
GROUP = 3     # cases per task (each case = 3 values of k => ~10 checked executions per task)


def make_tasks(tier):
    tasks, notes, n_drivers = [], [], {}
    for fam, variant, kinds in CAMPAIGNS[tier]:
        w = make_world(fam, variant)
        drvs, nts = drivers(w, tier, kinds)
        notes += [f"{w['name']}: {x}" for x in nts]
        n_drivers[w["name"]] = len(drvs)
        cases = []
        for d in drvs:
            cases.append({"driver": d, "mode": "fresh"})
            cases.append({"driver": d, "mode": "live"})
            if len(d["inputs"]) > 1 and (tier == "thorough" or d["kind"] == "traffic"):
                cases.append({"driver": d, "mode": "live-multi"})   # one grouped ModelingUpdate
        for i in range(0, len(cases), GROUP):
            tasks.append({"fam": fam, "variant": variant, "ks": KS_BY_TIER[tier], "cases": cases[i:i + GROUP]})
    return tasks, sorted(set(notes)), n_drivers


def main(tier):
    prepare()
    run = report.Run(PROP, tier)
    tasks, notes, n_drivers = make_tasks(tier)
    engine.start(run_task, warm=warm)
    results = engine.pmap(tasks)
    engine.stop()
    engine.check_results(results, run)
    outcomes, digests, inputs = {}, set(), set()
    transitions = compared = n_cases = 0
    hours = {"full": 0, "same": 0, "mixed": 0, "mixed_unchecked": 0}
    samples, sample_kinds = [], set()
    by_kind = {}
    for task, res in zip(tasks, results):
        if res.get("_timeout"):
            run.violation({"clause": "timeout"}, {"task": task, "detail": "no termination within the alarm", "size": 9})
            continue
        for c, x in (res.get("counters") or {}).items():
            run.count(c, x)
        for v in res["violations"]:
            case = task["cases"][v["case"]]
            single = {"fam": task["fam"], "variant": task["variant"], "ks": task["ks"], "cases": [case]}
            size = len(case["driver"]["inputs"]) + (0 if case["mode"] == "fresh" else 1)
            run.violation(v["sig"], {"task": single, "detail": v["detail"], "size": size})
        for case, cr in zip(task["cases"], res["cases"]):
            n_cases += 1
            d = case["driver"]
            oc = f"{d['kind']}/{d['scope']} {cr['outcome']}"
            outcomes[oc] = outcomes.get(oc, 0) + 1
            transitions += cr["executions"]
            compared += cr["compared"]
            by_kind[d["kind"]] = by_kind.get(d["kind"], 0) + 1
            if cr.get("digest"):
                digests.add(cr["digest"])
            for h in hours:
                hours[h] += (cr.get("hours") or {}).get(h, 0)
            for k in task["ks"]:
                inputs.add(json.dumps([task["fam"], task["variant"], d["inputs"], k]))
            if cr.get("sample") and (d["kind"], d["scope"]) not in sample_kinds and len(samples) < 8:
                sample_kinds.add((d["kind"], d["scope"]))
                samples.append({"world": f"{task['fam']}/{task['variant']}", "driver": d["label"],
                                "inputs_scaled": d["inputs"], "mode": case["mode"], "outcome": cr["outcome"],
                                **cr["sample"]})
    n_worlds = len(CAMPAIGNS[tier])
    cov = {
        "states": len(inputs) + n_worlds,
        "transitions": transitions,
        "traces_validated_against_impl": compared,
        "samples": samples,
        "exhaustive": True,
        "distinct_outcomes": len(outcomes),
        "distinct_scaled_footprint_snapshots": len(digests),
        "cases": n_cases, "cases_by_driver_kind": by_kind, "drivers_per_world": n_drivers,
        "hours_of_additive_footprints": hours,
        "outcomes": dict(sorted(outcomes.items())),
        "skipped_drivers": notes,
        "bounds": f"worlds {[f'{a}/{b}' + ('' if c is None else ' (network-related drivers only)') for a, b, c in CAMPAIGNS[tier]]}; "
                  f"every object {'(spares outside the system included) ' if tier == 'thorough' else 'of the system '}x every driver of the statement x k in {KS_BY_TIER[tier]}; modes fresh build / live "
                  f"assignment" + (" / one grouped ModelingUpdate" if tier == "thorough" else " (traffic also as one grouped ModelingUpdate)")
                  + "; additive drivers: each contributor alone, all contributors of a footprint, connected components",
        "explanation": "states = distinct scaled input worlds + base worlds; transitions = builds of a scaled world / "
                       "live re-assignments whose resulting footprints were compared; traces = (footprint, k) "
                       "predictions of the table compared with the implementation, hour by hour",
    }
    return run.finish(cov, assumptions=[
        "compared attributes: energy_footprint, instances_fabrication_footprint (+ devices_* of usage patterns) of every "
        "object of the world; for 'all traffic x k' also job loads, pattern loads, server needs and raw instance counts",
        "traffic x k: storages and non-serverless servers are neither required to scale nor to stay unchanged (whole "
        "instances); every other footprint must scale",
        "mixed hours of an additive footprint (some but not all contributors scaled): F_k = F_1 + (k^e - 1) B with "
        "0 < B < F_1 and B independent of k; for devices B/F_1 is also compared with the input weights",
        "contributors of a network hour are read from the library's per-pattern data series of the unscaled system",
        "tolerance rel 1e-9 / abs 1e-12 kg; hash seam installed for determinism only (default schedule)",
        "live mode re-assigns k * original on one built system for k = 0.5, 2, 3 in turn; each state is compared with "
        "the state before the first assignment"])


if __name__ == "__main__":
    try:
        sys.exit(main(sys.argv[1] if len(sys.argv) > 1 else "quick"))
    except engine.CrashError as e:
        print("HARNESS-ERROR", e)
        sys.exit(2)
