"""C02 — the system footprint accounts for every component exactly once.

Enumerates sharing configurations of a bounded universe (1-3 usage patterns, each choosing its journey, network,
country / time zone, devices and time window; jobs sharing or not a server; with / without a deleting job) plus the
depth-1 edit states of W1-W3, and evaluates a plain-Python reference of the statement on the per-object results:
hourly total = sum over DISTINCT servers, storages, networks and usage patterns; per-category / per-object / summed
views consistent with it; finite (non-negative without deleting job); energy footprint = energy x the carbon intensity
that applies.
"""
import itertools
import json
import math
import sys

from efmc import boot, engine, report, world as W, snap as S, hist as H
from checks import c01

PROP = "C02"


def prepare():
    boot.install_seams()


def ser(v):
    """{ns: float in base units} (EMPTY -> {}), scalar -> float."""
    c = S.canon(v)
    if c[0] == "E":
        return {}
    if c[0] == "H":
        return {int(t): float(x) for t, x in zip(c[3], c[4])}
    if c[0] == "Q":
        return c[2]
    raise ValueError(c[0])


def add_series(*ss):
    out = {}
    for s in ss:
        for k, x in s.items():
            out[k] = out.get(k, 0.0) + x
    return out


def scale(s, f):
    return {k: x * f for k, x in s.items()}


def series_close(a, b, atol=1e-12, rtol=1e-9):
    for k in set(a) | set(b):
        x, y = a.get(k, 0.0), b.get(k, 0.0)
        if not abs(x - y) <= atol + rtol * max(abs(x), abs(y)):
            return False, (k, x, y)
    return True, None


def world_objects(m, w):
    names = W.reachable(w)
    by_cls = {}
    for n in names:
        by_cls.setdefault(w["objects"][n]["cls"], []).append(n)
    return names, by_cls


def accounting_violations(m, w):
    """List of (clause, where, detail)."""
    out = []
    sysobj = m.system
    names, by_cls = world_objects(m, w)
    servers = [n for c in ("Server", "GPUServer", "BoaviztaCloudServer") for n in by_cls.get(c, [])]
    storages = by_cls.get("Storage", [])
    networks = by_cls.get("Network", [])
    ups = by_cls.get("UsagePattern", [])
    o = lambda n: S.unwrap(m.objs[n])
    # ---- hourly total
    parts = []
    for n in servers + storages:
        parts += [ser(o(n).energy_footprint), ser(o(n).instances_fabrication_footprint)]
    for n in networks:
        parts.append(ser(o(n).energy_footprint))
    for n in ups:
        parts += [ser(o(n).energy_footprint), ser(o(n).instances_fabrication_footprint)]
    want = add_series(*parts)
    got = ser(sysobj.total_footprint)
    ok, first = series_close(got, want, atol=0.5001e-4)
    if not ok or (set(got) != set(want) and any(abs(want.get(k, 0.0)) > 0.5e-4 for k in set(want) - set(got))):
        out.append(("total-is-not-the-sum-of-distinct-components", "System.total_footprint", str(first)))
    # ---- per-object views: each object exactly once under its id
    for view, attr_of in (("energy_footprints", "energy_footprint"), ("fabrication_footprints", "instances_fabrication_footprint")):
        d = getattr(sysobj, view)
        expected = {"Servers": servers, "Storage": storages, "Devices": ups,
                    "Network": networks if view == "energy_footprints" else None}
        for cat, members in expected.items():
            if members is None:
                continue
            ids = sorted(o(n).id for n in members)
            if sorted(d[cat].keys()) != ids:
                out.append(("per-object-view-does-not-list-each-object-once", f"System.{view}[{cat}]",
                            f"{sorted(d[cat].keys())} vs {ids}"))
                continue
            for n in members:
                ok, first = series_close(ser(d[cat][o(n).id]), ser(getattr(o(n), attr_of)))
                if not ok:
                    out.append(("per-object-view-differs-from-object", f"System.{view}[{cat}]", str(first)))
        # ---- per-category totals and sums over period
        tot = getattr(sysobj, "total_" + view)
        for cat, members in expected.items():
            if members is None:
                continue
            want_cat = add_series(*[ser(getattr(o(n), attr_of)) for n in members])
            ok, first = series_close(ser(tot[cat]), want_cat)
            if not ok:
                out.append(("category-total-is-not-the-sum-of-its-objects", f"System.total_{view}[{cat}]", str(first)))
        sums = getattr(sysobj, view[:-1] + "_sum_over_period")
        for cat, members in expected.items():
            if members is None:
                continue
            for n in members:
                w_ = sum(ser(getattr(o(n), attr_of)).values())
                g_ = ser(sums[cat][o(n).id])
                if not abs(g_ - w_) <= 1e-12 + 1e-9 * max(abs(g_), abs(w_)):
                    out.append(("sum-over-period-differs-from-hourly-view", f"System.{view[:-1]}_sum_over_period[{cat}]", f"{g_} vs {w_}"))
        tsums = getattr(sysobj, "total_" + view[:-1] + "_sum_over_period")
        for cat, members in expected.items():
            if members is None:
                continue
            w_ = sum(sum(ser(getattr(o(n), attr_of)).values()) for n in members)
            g_ = ser(tsums[cat])
            if not abs(g_ - w_) <= 1e-12 + 1e-9 * max(abs(g_), abs(w_)):
                out.append(("total-sum-over-period-differs", f"System.total_{view[:-1]}_sum_over_period[{cat}]", f"{g_} vs {w_}"))
    # ---- finite, non-negative
    has_deleter = any(w["objects"][n]["attrs"].get("data_stored", ["q", 0, ""])[1] < 0
                      for n in names if "data_stored" in w["objects"][n]["attrs"])
    for n in servers + storages + networks + ups + [w["system"]]:
        for a in ("energy_footprint", "instances_fabrication_footprint", "total_footprint"):
            if hasattr(o(n), a):
                s = ser(getattr(o(n), a))
                vals = list(s.values()) if isinstance(s, dict) else [s]
                if any(not math.isfinite(x) for x in vals):
                    out.append(("footprint-not-finite", S.class_attr(o(n), a), n))
                elif not has_deleter and any(x < -1e-15 for x in vals):
                    out.append(("footprint-negative-without-deleting-job", S.class_attr(o(n), a), n))
    # ---- energy footprint = energy x carbon intensity that applies
    for n in servers:
        want = scale(ser(o(n).instances_energy), ser(o(n).average_carbon_intensity))
        ok, first = series_close(ser(o(n).energy_footprint), want)
        if not ok:
            out.append(("energy-footprint-is-not-energy-x-intensity", "Server.energy_footprint", str(first)))
    for n in storages:
        srv = [s for s in servers if w["objects"][s]["attrs"]["storage"][1] == n]
        if len(srv) == 1:
            want = scale(ser(o(n).instances_energy), ser(o(srv[0]).average_carbon_intensity))
            ok, first = series_close(ser(o(n).energy_footprint), want)
            if not ok:
                out.append(("energy-footprint-is-not-energy-x-intensity", "Storage.energy_footprint", str(first)))
    for n in ups:
        c = w["objects"][n]["attrs"]["country"][1]
        want = scale(ser(o(n).devices_energy), ser(o(c).average_carbon_intensity))
        for a in ("devices_energy_footprint", "energy_footprint"):
            ok, first = series_close(ser(getattr(o(n), a)), want)
            if not ok:
                out.append(("energy-footprint-is-not-energy-x-intensity", "UsagePattern." + a, str(first)))
    for nw in networks:
        want = {}
        for n in ups:
            if w["objects"][n]["attrs"]["network"][1] != nw:
                continue
            c = w["objects"][n]["attrs"]["country"][1]
            uj = w["objects"][n]["attrs"]["usage_journey"][1]
            jobs = []
            for st in w["objects"][uj]["attrs"]["uj_steps"][1]:
                for j in w["objects"][st]["attrs"]["jobs"][1]:
                    if j not in jobs:
                        jobs.append(j)
            data = {}
            for j in jobs:
                dct = o(j).hourly_data_transferred_per_usage_pattern
                entry = next((v for k, v in dct.items() if S.key_name(k) == n), None)
                if entry is not None:
                    data = add_series(data, ser(entry))
            want = add_series(want, scale(data, ser(o(nw).bandwidth_energy_intensity) * ser(o(c).average_carbon_intensity)))
        ok, first = series_close(ser(o(nw).energy_footprint), want)
        if not ok:
            out.append(("network-footprint-is-not-sum-over-patterns-of-data-x-intensities", "Network.energy_footprint", str(first)))
    return out


# ---------------------------------------------------------------------------------------------- configurations
WINDOWS = {"same": "2025-01-01 00:00", "overlap": "2025-01-01 02:00", "disjoint": "2025-01-03 00:00",
           "dst": "2025-03-30 00:00"}
SERIES = [[1, 2, 0, 3], [4, 0, 2], [2, 2, 7, 1, 1]]
ZONES = [("UTC", "Europe/Paris"), ("America/New_York", "Asia/Kolkata")]


def build_config(cfg):
    """cfg = {"ups": [[journey, network, country, devices, window]...], "zones": i, "j2_server": "sv1"|"sv2", "deleter": bool}"""
    w = W.new_world("CFG")
    W._std_storage(w, "st1")
    W._std_storage(w, "st2", data_storage_duration=W.Q(2, "hour"))
    W.add(w, "sv1", "Server", storage=W.link("st1"))
    W.add(w, "sv2", "Server", storage=W.link("st2"), server_type=["c", "serverless"],
          average_carbon_intensity=W.Q(300, "gram / kilowatt_hour"))
    W.add(w, "j1", "Job", server=W.link("sv1"), request_duration=W.Q(90, "minute"))
    W.add(w, "j2", "Job", server=W.link(cfg["j2_server"]), data_transferred=W.Q(0.3, "megabyte"))
    W.add(w, "j3", "Job", server=W.link("sv1"), data_stored=W.Q(-20, "kilobyte"), request_duration=W.Q(90, "minute"))
    W.add(w, "sA", "UsageJourneyStep", user_time_spent=W.Q(20, "minute"), jobs=W.lst("j1"))
    W.add(w, "sB", "UsageJourneyStep", user_time_spent=W.Q(70, "minute"),
          jobs=W.lst(*(["j2", "j1"] + (["j3"] if cfg["deleter"] else []))))
    W.add(w, "ujA", "UsageJourney", uj_steps=W.lst("sA"))
    W.add(w, "ujB", "UsageJourney", uj_steps=W.lst("sA", "sB"))
    W.add(w, "n1", "Network")
    W.add(w, "n2", "Network", bandwidth_energy_intensity=W.Q(0.2, "kilowatt_hour / gigabyte"))
    z = ZONES[cfg["zones"]]
    W._country(w, "c1", "C1", 100, z[0])
    W._country(w, "c2", "C2", 400, z[1])
    W.add(w, "d1", "Device")
    W.add(w, "d2", "Device", power=W.Q(10, "watt"))
    names = []
    for i, (uj, nw, c, devs, win) in enumerate(cfg["ups"]):
        n = f"up{i}"
        W._up(w, n, uj, nw, c, devs, SERIES[i], WINDOWS[win])
        names.append(n)
    w["objects"]["sys"] = {"cls": "System", "attrs": {"usage_patterns": W.lst(*names)}}
    return w


def run_task(task):
    res = {"violations": [], "counters": {}, "outcome": "ok", "n": 0, "rejected": 0, "digests": []}
    for case in task["cases"]:
        if task["kind"] == "config":
            w = build_config(case)
            try:
                m = W.build(w, perms=case.get("perms"))
            except Exception as ex:  # noqa
                res["rejected"] += 1
                res["counters"]["rejected:" + type(ex).__name__ + (":deleter" if case["deleter"] else "")] = \
                    res["counters"].get("rejected:" + type(ex).__name__ + (":deleter" if case["deleter"] else ""), 0) + 1
                continue
            trig = f"ups={len(case['ups'])}"
        else:
            w = W.family(case["world"])
            m = W.build(w, perms=case.get("perms"))
            try:
                for e in case["history"]:
                    W.apply_live(m, e)
                    w = W.apply_spec(w, e)
            except Exception:  # noqa
                res["rejected"] += 1
                continue
            trig = "+".join(engine.letter_class(e, W.family(case["world"])) for e in case["history"]) or "build"
            if any(c01.removes_element(W.family(case["world"]), e) == "System.usage_patterns" for e in case["history"]):
                continue    # dangling pattern: ghost traffic is C01's known finding
        boot.set_ranks(m.ranks)
        res["n"] += 1
        res["digests"].append(S.digest({("sys", "t"): S.canon(m.system.total_footprint)}, 6))
        seen = set()
        for clause, where, detail in accounting_violations(m, w):
            sig = {"clause": clause, "where": where}
            k = json.dumps(sig)
            if k in seen:
                continue
            seen.add(k)
            res["violations"].append({"sig": sig, "detail": {"first": detail[:300], "trigger": trig}, "case": case})
    return res


def configs(tier):
    out = []
    j = ["ujA", "ujB"]
    nws = ["n1", "n2"]
    cs = ["c1", "c2"]
    devs = [["d1"], ["d2"], ["d1", "d2"]]
    wins = list(WINDOWS)
    # one usage pattern: everything
    for uj, nw, c, dv, win in itertools.product(j, nws, cs, devs, wins):
        for z, srv, dl in itertools.product((0, 1), ("sv1", "sv2"), (False, True)):
            out.append({"ups": [[uj, nw, c, dv, win]], "zones": z, "j2_server": srv, "deleter": dl})
    # two usage patterns: all journey/network/country choices x relative window x sharing; devices vary with the index
    for (u1, n1_, c1_), (u2, n2_, c2_) in itertools.product(itertools.product(j, nws, cs), repeat=2):
        for win in wins:
            for z, srv, dl in itertools.product((0, 1), ("sv1", "sv2"), (False, True)):
                if tier == "quick" and (z, srv, dl) not in ((0, "sv1", False), (1, "sv2", False), (0, "sv2", True)):
                    continue
                out.append({"ups": [[u1, n1_, c1_, ["d1"], "same"], [u2, n2_, c2_, ["d1", "d2"], win]],
                            "zones": z, "j2_server": srv, "deleter": dl})
    # three usage patterns
    triples = list(itertools.product(itertools.product(j, nws, cs), repeat=3))
    step = 1 if tier == "thorough" else 5
    for (a, b, c) in triples[::step]:
        for z, srv, dl in (((0, "sv2", False), (1, "sv1", False)) if tier == "quick" else
                           itertools.product((0, 1), ("sv1", "sv2"), (False, True))):
            out.append({"ups": [[a[0], a[1], a[2], ["d1"], "same"], [b[0], b[1], b[2], ["d2"], "overlap"],
                                [c[0], c[1], c[2], ["d1", "d2"], "dst"]], "zones": z, "j2_server": srv, "deleter": dl})
    return out


def main(tier):
    prepare()
    run = report.Run(PROP, tier)
    engine.start(run_task)
    cfgs = configs(tier)
    tasks = [{"kind": "config", "cases": cfgs[i:i + 12]} for i in range(0, len(cfgs), 12)]
    states = []
    for fam in ("W1", "W2", "W3"):
        w0 = W.family(fam)
        letters = c01.core_alphabet(w0, w0) if tier == "quick" else c01.full_alphabet(w0, w0)
        for perms in ({}, H.reversed_schedule(w0)):
            states.append({"world": fam, "perms": perms, "history": []})
            for e in letters:
                states.append({"world": fam, "perms": perms, "history": [e]})
    tasks += [{"kind": "state", "cases": states[i:i + 8]} for i in range(0, len(states), 8)]
    results = engine.pmap(tasks)
    engine.check_results(results, run)
    engine.stop()
    n = rejected = 0
    digests = set()
    for t, r in zip(tasks, results):
        if r.get("_timeout"):
            run.violation({"clause": "timeout"}, {"task": t, "size": 1})
            continue
        n += r["n"]
        rejected += r["rejected"]
        digests.update(r["digests"])
        for c, k in r["counters"].items():
            run.count(c, k)
        for v in r["violations"]:
            run.violation(v["sig"], {"task": dict(t, cases=[v["case"]]), "detail": v["detail"],
                                     "size": len(v["case"].get("ups", v["case"].get("history", [])))})
    cov = {"states": n, "transitions": n, "traces_validated_against_impl": n, "configurations": len(cfgs),
           "edit_states": len(states), "rejected_builds": rejected, "samples": [cfgs[0], cfgs[len(cfgs) // 2], states[1]],
           "exhaustive": True, "distinct_outcomes": len(digests),
           "bounds": "1-3 usage patterns x {2 journeys, 2 networks, 2 countries (zones UTC/Paris or New_York/Kolkata), device "
                     "subsets, windows same/overlap/disjoint/DST} x job-server sharing x deleting job; + depth-1 edit states of W1-W3"}
    return run.finish(cov, assumptions=[
        "components are collected from the declarative world (forward closure), independently of System.servers/storages/networks",
        "System.total_footprint is rounded to 4 decimals of kg by the library: compared within half a quantum",
        "a configuration whose construction raises is counted as rejected (C04 decides whether rejections are legitimate)"])


if __name__ == "__main__":
    try:
        sys.exit(main(sys.argv[1] if len(sys.argv) > 1 else "quick"))
    except engine.CrashError as e:
        print("HARNESS-ERROR", e)
        sys.exit(2)
