"""C07 — every computed value is reproduced by the formula it displays.

For every node of the full explanation tree (left_parent / right_parent down to the leaves) of every calculated
attribute (dict entries included) of every object of W1-W4, in every state of a depth-<=2 exploration over a reduced
alphabet:
 * nodes whose recorded operator is + - * / with both operands: the operation re-evaluated on the base-unit forms of
   the recorded operands (dict[hour -> float]; missing hour = 0 and EMPTY = 0 for + and *; - and / only on common
   hours) must reproduce the node's own value and physical dimension;
 * explain() (both renderings) returns without error for every calculated attribute;
 * every calculated attribute and every leaf carries a non-empty label;
 * every leaf that is an input of a model object and is not EMPTY carries a source (unattached leaves are formula
   constants such as "one hour": label only).
"""
import json
import sys

import numpy as np

from efmc import boot, engine, report, world as W, snap as S, hist as H
from checks import c01

PROP = "C07"


def prepare():
    boot.install_seams()


_dimensionality = {}


def dim_of(base_unit_str):
    """Pint dimensionality of a base-unit string (information units are dimensionless for pint: bit = [])."""
    from efootprint.constants.units import u
    if base_unit_str not in _dimensionality:
        _dimensionality[base_unit_str] = str(u.Quantity(1.0, base_unit_str).dimensionality)
    return _dimensionality[base_unit_str]


def base_form(v):
    """('E',) | ('Q', dimensionality, float, base unit) | ('H', dimensionality, {ns: float}, aware, base unit)"""
    c = S.canon(v)
    if c[0] == "H":
        return ("H", dim_of(c[1]), {int(t): float(x) for t, x in zip(c[3], c[4])}, c[2], c[1])
    if c[0] == "Q":
        return ("Q", dim_of(c[1]), c[2], c[1])
    return c


_dim_cache = {}


def combine_dims(a, b, op):
    from efootprint.constants.units import u
    k = (a, b, op)
    if k not in _dim_cache:
        qa, qb = u.Quantity(1.0, a), u.Quantity(1.0, b)
        r = qa * qb if op == "*" else qa / qb
        _dim_cache[k] = str(r.to_base_units().units), float(r.to_base_units().magnitude)
    return _dim_cache[k]


def evaluate(op, L, R):
    """Reference evaluation on base forms. Returns a base form, or None when the statement does not define it."""
    if op in ("+", "-"):
        if L[0] == "E" and R[0] == "E":
            return ("E",)
        if R[0] == "E":
            return L
        if L[0] == "E":
            return R if op == "+" else None
        if L[1] != R[1]:
            return ("DIM-MISMATCH", L[1], R[1])
        if L[0] == "Q" and R[0] == "Q":
            return ("Q", L[1], L[2] + R[2] if op == "+" else L[2] - R[2])
        if L[0] == "H" and R[0] == "H":
            if L[3] != R[3]:
                return None
            if op == "+":
                keys = set(L[2]) | set(R[2])
                return ("H", L[1], {k: L[2].get(k, 0.0) + R[2].get(k, 0.0) for k in keys}, L[3])
            keys = set(L[2]) & set(R[2])
            return ("H-partial", L[1], {k: L[2][k] - R[2][k] for k in keys}, L[3])
        return None
    if op in ("*", "/"):
        if op == "*" and (L[0] == "E" or R[0] == "E"):
            return ("E",)
        if L[0] == "E" or R[0] == "E":
            return None
        dim, factor = combine_dims(L[-1], R[-1], op)
        dim = dim_of(dim)
        f = (lambda x, y: x * y) if op == "*" else (lambda x, y: x / y if y != 0 else float("nan"))
        if L[0] == "Q" and R[0] == "Q":
            return ("Q", dim, f(L[2], R[2]) * factor)
        if L[0] == "H" and R[0] == "Q":
            return ("H", dim, {k: f(x, R[2]) * factor for k, x in L[2].items()}, L[3])
        if L[0] == "Q" and R[0] == "H":
            return ("H", dim, {k: f(L[2], x) * factor for k, x in R[2].items()}, R[3])
        if L[0] == "H" and R[0] == "H":
            if L[3] != R[3]:
                return None
            if op == "*":
                keys = set(L[2]) | set(R[2])
                return ("H", dim, {k: L[2].get(k, 0.0) * R[2].get(k, 0.0) * factor for k in keys}, L[3])
            keys = set(L[2]) & set(R[2])
            return ("H-partial", dim, {k: f(L[2][k], R[2][k]) * factor for k in keys}, L[3])
    return None


def magnitude_scale(*forms):
    """Largest absolute operand value: the absolute tolerance of a sum/difference scales with its operands."""
    m = 0.0
    for f in forms:
        if f[0] == "Q":
            m = max(m, abs(f[2]))
        elif f[0] == "H" and f[2]:
            m = max(m, max(abs(x) for x in f[2].values()))
    return m


def agrees(node_form, ref, scale=0.0):
    if ref[0] == "DIM-MISMATCH":
        return False, "operands of different dimensions"
    if ref[0] == "E":
        return (node_form[0] == "E"), "expected EMPTY"
    if node_form[0] == "E":
        return False, "node is EMPTY"
    if node_form[1] != ref[1]:
        return False, f"dimension {node_form[1]} vs {ref[1]}"
    if ref[0] == "Q":
        if node_form[0] != "Q":
            return False, "kind"
        a, b = node_form[2], ref[2]
        return (abs(a - b) <= 1e-12 + 1e-9 * max(abs(a), abs(b), scale) or (a != a and b != b)), f"{a} vs {b}"
    if node_form[0] != "H":
        return False, "kind"
    got = node_form[2]
    if ref[0] == "H" and set(got) != set(ref[2]):
        return False, f"hours differ: {len(got)} vs {len(ref[2])}"
    for k, b in ref[2].items():
        a = got.get(k)
        if a is None:
            return False, "hour missing"
        if not (abs(a - b) <= 1e-12 + 1e-9 * max(abs(a), abs(b), scale) or (a != a and b != b)):
            return False, f"{a} vs {b}"
    return True, ""


def tree_nodes(root):
    seen, out, stack = set(), [], [root]
    while stack:
        n = stack.pop()
        if id(n) in seen:
            continue
        seen.add(id(n))
        out.append(n)
        for p in (n.left_parent, n.right_parent):
            if p is not None:
                stack.append(p)
    return out


def owner_of(n):
    c = n.modeling_obj_container
    return None if c is None else S.unwrap(c)


def run_task(task):
    if task.get("kind") == "operators":
        return run_operator_task(task)
    w = H.world_of(task)
    m = W.build(w, perms=task.get("perms"))
    res = {"violations": [], "counters": {}, "nodes": 0, "arith": 0, "leaves": 0}
    for e in task.get("history", []):
        try:
            W.apply_live(m, e)
            w = W.apply_spec(w, e)
        except Exception:  # noqa
            res["outcome"] = "history-rejected"
            return res
    boot.set_ranks(m.ranks)
    res["outcome"] = "ok"
    state = "+".join(engine.letter_class(e, H.world_of(task)) for e in task.get("history", [])) or "build"
    seen_sig = set()

    def add(sig, detail):
        k = json.dumps(sig, sort_keys=True)
        if k not in seen_sig:
            seen_sig.add(k)
            res["violations"].append({"sig": sig, "detail": detail})
    visited = set()
    for o in S.system_objects(m.system):
        for a in o.calculated_attributes:
            v = getattr(o, a)
            where = S.class_attr(o, a)
            roots = list(v.values()) if isinstance(v, dict) else [v]
            for r in roots:
                if not getattr(r, "label", None):
                    add({"clause": "calculated-attribute-without-label", "where": where}, {"state": state})
                try:
                    r.explain()
                    r.explain(pretty_print=False)
                except Exception as ex:  # noqa
                    add({"clause": "explain-raises", "where": where, "exc": type(ex).__name__},
                        {"state": state, "exception": str(ex)[:200]})
                for n in tree_nodes(r):
                    if id(n) in visited:
                        continue
                    visited.add(id(n))
                    res["nodes"] += 1
                    L, R, op = n.left_parent, n.right_parent, n.operator
                    if L is None and R is None:
                        res["leaves"] += 1
                        own = owner_of(n)
                        if not n.label:
                            add({"clause": "leaf-without-label", "where": where}, {"state": state})
                        if own is not None and not isinstance(n, S.EmptyExplainableObject):
                            attr = n.attr_name_in_mod_obj_container
                            if attr not in own.calculated_attributes and getattr(n, "source", None) is None:
                                add({"clause": "input-leaf-without-source", "input": f"{type(own).__name__}.{attr}"},
                                    {"state": state, "reached_from": where, "label": n.label})
                        continue
                    if op in ("+", "-", "*", "/") and L is not None and R is not None:
                        try:
                            lf, rf, nf = base_form(L), base_form(R), base_form(n)
                        except Exception:  # noqa
                            continue
                        if lf[0] not in ("E", "Q", "H") or rf[0] not in ("E", "Q", "H"):
                            continue
                        ref = evaluate(op, lf, rf)
                        if ref is None:
                            res["counters"]["not-defined-by-statement:" + op] = res["counters"].get("not-defined-by-statement:" + op, 0) + 1
                            continue
                        res["arith"] += 1
                        ok, why = agrees(nf, ref, magnitude_scale(lf, rf) if op in ("+", "-") else 0.0)
                        if not ok:
                            add({"clause": "recorded-operation-does-not-reproduce-value", "op": op, "where": where,
                                 "kinds": lf[0] + op + rf[0]},
                                {"state": state, "why": why, "node_label": n.label, "left": S.render(S.canon(L))[:150],
                                 "right": S.render(S.canon(R))[:150], "node": S.render(S.canon(n))[:150]})
    res["vdigest"] = f"{res['nodes']}:{res['arith']}:{res['leaves']}"
    return res


def operator_operands():
    """Small operand alphabet for the operator-level part: every kind the operators distinguish."""
    from efootprint.abstract_modeling_classes.explainable_objects import (
        ExplainableQuantity, ExplainableHourlyQuantities, EmptyExplainableObject)
    from efootprint.builders.time_builders import create_hourly_usage_df_from_list
    from efootprint.constants.units import u
    from datetime import datetime
    d0, d1 = datetime(2025, 1, 1), datetime(2025, 1, 1, 1)

    def h(vals, unit, start):
        return lambda: ExplainableHourlyQuantities(create_hourly_usage_df_from_list(vals, start, unit), "h")
    return {
        "Q:GB": lambda: ExplainableQuantity(2.5 * u.GB, "q1"), "Q:MB": lambda: ExplainableQuantity(300 * u.MB, "q2"),
        "Q:s": lambda: ExplainableQuantity(4 * u.s, "q3"), "Q:1": lambda: ExplainableQuantity(3 * u.dimensionless, "q4"),
        "H:GB": h([1.0, 2.0, 4.0], u.GB, d0), "H:MB@+1": h([100.0, 200.0], u.MB, d1), "H:W": h([5.0, 7.0, 11.0], u.W, d0),
        "E": lambda: EmptyExplainableObject()}


def run_operator_task(task):
    """Every ordered pair of operand kinds x {+,-,*,/} (reflected forms are reached through the other order): when the
    library returns an explainable result that records the operation, re-evaluating the record must reproduce it."""
    import operator
    ops = {"+": operator.add, "-": operator.sub, "*": operator.mul, "/": operator.truediv}
    res = {"violations": [], "counters": {}, "nodes": 0, "arith": 0, "leaves": 0, "outcome": "ok"}
    mk = operator_operands()
    for ka in mk:
        for kb in mk:
            for sym, fn in ops.items():
                a, b = mk[ka](), mk[kb]()
                try:
                    r = fn(a, b)
                except Exception:  # noqa  (refusals are C09's business)
                    res["counters"]["refused"] = res["counters"].get("refused", 0) + 1
                    continue
                if not isinstance(r, S.ExplainableObject):
                    continue
                res["nodes"] += 1
                L, R, op = r.left_parent, r.right_parent, r.operator
                if op not in ops or L is None or R is None:
                    continue
                try:
                    lf, rf, nf = base_form(L), base_form(R), base_form(r)
                except Exception:  # noqa
                    continue
                ref = evaluate(op, lf, rf)
                if ref is None:
                    continue
                res["arith"] += 1
                ok, why = agrees(nf, ref, magnitude_scale(lf, rf) if op in ("+", "-") else 0.0)
                if not ok:
                    res["violations"].append({
                        "sig": {"clause": "recorded-operation-does-not-reproduce-value", "op": sym, "where": "operator",
                                "kinds": ka.split(":")[0] + sym + kb.split(":")[0]},
                        "detail": {"operands": [ka, kb], "recorded": [S.render(S.canon(L))[:80], op, S.render(S.canon(R))[:80]],
                                   "result": S.render(S.canon(r))[:120], "why": why}})
    res["vdigest"] = f"ops:{res['nodes']}:{res['arith']}"
    return res


_run_state_task = None

TIERS = {"quick": {"W1": (80, 8), "W1c": (20, 0), "W2": (60, 6), "W3": (80, 6), "W4": (30, 3)},
         "thorough": {"W1": (400, 40), "W1c": (400, 10), "W2": (400, 20), "W3": (400, 30), "W4": (200, 10)}}


def make_tasks(tier):
    tasks = [{"kind": "operators", "world": "operators", "history": []}]
    for fam, (n1, n2) in TIERS[tier].items():
        w0 = W.family(fam)
        if fam == "W4":
            letters = H.numeric_letters(w0, w0, specials=False) + H.list_letters(w0, allow_empty=False)
        else:
            letters = c01.core_alphabet(w0, w0)
        step = max(1, len(letters) // max(1, n1))
        l1 = letters[::step][:n1]
        tasks.append({"world": fam, "perms": {}, "history": []})
        tasks.append({"world": fam, "perms": H.reversed_schedule(w0), "history": []})
        for e in l1:
            tasks.append({"world": fam, "perms": {}, "history": [e]})
        # depth 2: unit conversions happen during edits; chain a few letters
        for i, e in enumerate(l1[:n2]):
            for f in l1[i + 1:i + 1 + n2]:
                if e[0] == "multi" or f[0] == "multi" or (e[1], e[2]) != (f[1], f[2]):
                    tasks.append({"world": fam, "perms": {}, "history": [e, f]})
    return tasks


def main(tier):
    prepare()
    boot.all_classes()
    run = report.Run(PROP, tier)
    engine.start(run_task, warm=boot.warm_up)
    tasks = make_tasks(tier)
    results = engine.pmap(tasks)
    engine.check_results(results, run)
    engine.stop()
    nodes = arith = leaves = 0
    outcomes, shapes = {}, set()
    for t, r in zip(tasks, results):
        if r.get("_timeout"):
            run.violation({"clause": "timeout"}, {"task": t, "size": len(t["history"])})
            continue
        outcomes[r["outcome"]] = outcomes.get(r["outcome"], 0) + 1
        nodes += r["nodes"]
        arith += r["arith"]
        leaves += r["leaves"]
        if r.get("vdigest"):
            shapes.add(r["vdigest"])
        for c, n in r["counters"].items():
            run.count(c, n)
        for v in r["violations"]:
            run.violation(v["sig"], {"task": t, "detail": v["detail"], "size": len(t["history"])})
    cov = {"states": len(tasks), "transitions": nodes, "traces_validated_against_impl": arith,
           "explanation_tree_nodes": nodes, "arithmetic_nodes_re_evaluated": arith, "leaves_checked": leaves,
           "samples": [tasks[0], tasks[len(tasks) // 2], tasks[-1]], "exhaustive": True, "outcomes": outcomes,
           "distinct_outcomes": len(shapes),
           "bounds": f"{TIERS[tier]} = world: (depth-1 states, depth-2 chaining width); every node of every tree"}
    return run.finish(cov, assumptions=[
        "reference arithmetic on base-unit floats, rel 1e-9; '-' and '/' between hourly series compared on common hours only",
        "unattached leaves are formula constants: a label is required, a source is not"])


if __name__ == "__main__":
    try:
        sys.exit(main(sys.argv[1] if len(sys.argv) > 1 else "quick"))
    except engine.CrashError as e:
        print("HARNESS-ERROR", e)
        sys.exit(2)
