"""C01 — incremental recomputation equals recomputation from scratch.

Bounded exhaustive exploration of edit histories on the real update machinery; oracle = a system freshly built
from the same final inputs (forward closure of the system), plus the before/after reference totals.
"""
import json
import sys
import time

from efmc import boot, engine, report, world as W, snap as S, hist as H

PROP = "C01"
_fresh_cache = {}


def prepare():
    boot.install_seams()


def closure_key(w):
    names = W.reachable(w)
    return json.dumps({n: w["objects"][n] for n in sorted(names)}, sort_keys=True)


def fresh_snapshot(w, perms):
    k = closure_key(w)
    r = _fresh_cache.get(k)
    if r is None:
        try:
            fm = W.build(w, perms=perms, closure_only=True)
            r = ("ok", S.value_snapshot(fm.system))
        except Exception as ex:  # noqa
            r = ("raised", type(ex).__name__, str(ex)[:200])
        if len(_fresh_cache) > 4000:
            _fresh_cache.clear()
        _fresh_cache[k] = r
    return r


def removes_element(w, letter):
    """'Class.attr' of a list attribute from which the letter removes at least one element, else None."""
    if letter is None:
        return None
    subs = letter[1] if letter[0] == "multi" else [letter]
    for s in subs:
        if s[0] in ("list", "lop"):
            cur = w["objects"][s[1]]["attrs"][s[2]][1]
            try:
                new = W.apply_spec(w, s)["objects"][s[1]]["attrs"][s[2]][1]
            except W.SpecRaise:
                continue
            if any(x not in new for x in cur):
                return f"{w['objects'][s[1]]['cls']}.{s[2]}"
    return None


def ghost_explanation(w2, perms, ever_counted, live, objs, ranks):
    """Structural identification of the recorded ghost-traffic finding: usage patterns that were removed from the
    system still reference their journey / network / country, and the live model keeps counting their traffic.
    Returns 'removed-usage-pattern-still-counted' when the live values of every object other than the System itself
    are exactly those of a fresh model in which the removed patterns are still listed; else None."""
    sysname = w2["system"]
    final = w2["objects"][sysname]["attrs"]["usage_patterns"][1]
    dangling = [p for p in ever_counted if p not in final and p in w2["objects"]]
    if not dangling:
        return None
    import copy
    w3 = copy.deepcopy(w2)
    w3["objects"][sysname]["attrs"]["usage_patterns"] = ["list", list(final) + dangling]
    fr3 = fresh_snapshot(w3, perms)
    boot.set_ranks(ranks)       # the fresh build installed its own rank table
    if fr3[0] != "ok":
        return None
    system_names = {o.name for o in objs if type(o).__name__ == "System"}
    live_names = {o.name for o in objs}
    rest = [k for k, a, b in S.diff(live, fr3[1], empty_entries_neutral=True)
            if isinstance(k, tuple) and k[0] in live_names and k[0] not in system_names]
    return None if rest else "removed-usage-pattern-still-counted"


def totals(system):
    return (S.canon(system.total_energy_footprint_sum_over_period),
            S.canon(system.total_fabrication_footprint_sum_over_period))


def physically_noop(w, letter):
    """A letter that assigns to every input it touches the physical value that input already has (300 kB over 0.3 MB):
    the library skips such an update ("updated to itself"), it is not an edit and the reference totals stay."""
    parts = letter[1] if letter[0] == "multi" else [letter]
    for e in parts:
        if e[0] != "set":
            return False
        cur, new = w["objects"][e[1]]["attrs"].get(e[2]), e[3]
        if cur is None or cur[0] != new[0] or new[0] not in ("q", "h"):
            return False
        try:
            a, b = W.mkval(cur), W.mkval(new)
            if new[0] == "q":
                same = bool(a.value == b.value)
            else:
                same = bool(a.value.index.equals(b.value.index)) and bool(
                    (a.value["value"].values.quantity == b.value["value"].values.quantity).all())
        except Exception:  # noqa
            return False
        if not same:
            return False
    return True


def run_task(task):
    w = H.world_of(task)
    perms = task.get("perms")
    m = W.build(w, perms=perms)
    system = m.system
    init_tot = totals(system)
    sysname = w["system"]
    ever_counted = list(w["objects"][sysname]["attrs"]["usage_patterns"][1])
    for e in task.get("history", []):
        w = W.apply_spec(w, e)
        W.apply_live(m, e)
        ever_counted += [p for p in w["objects"][sysname]["attrs"]["usage_patterns"][1] if p not in ever_counted]
    letter = task.get("letter")
    res = {"violations": [], "counters": {}}
    pre_tot = totals(system)
    w2 = w
    if letter is not None:
        try:
            w2 = W.apply_spec(w, letter)
        except W.SpecRaise as ex:
            res["outcome"] = "spec-raises"
            return res
        try:
            W.apply_live(m, letter)
        except Exception as ex:  # noqa
            fr = fresh_snapshot(w2, perms)
            if fr[0] == "ok":
                res["outcome"] = "live-raises-only"
                res["counters"]["spurious_rejection:" + engine.letter_class(letter, w) + ":" + type(ex).__name__] = 1
            else:
                res["outcome"] = "rejected"
            res["key"] = None
            return res
    # restore the rank table of the live model (a fresh build in between resets it to the same table)
    boot.set_ranks(m.ranks)
    fr = fresh_snapshot(w2, perms)
    boot.set_ranks(m.ranks)
    lc = engine.letter_class(letter, w)
    if fr[0] != "ok":
        res["outcome"] = "accepted-fresh-raises"
        res["counters"]["accepted_but_fresh_build_raises:" + lc + ":" + fr[1]] = 1
        res["key"] = None
        return res
    res["outcome"] = "accepted"
    objs = S.system_objects(system)
    live = S.value_snapshot(system, objs)
    d = S.diff(live, fr[1], empty_entries_neutral=True)
    if d:
        rank = S.canonical_rank(objs)
        byname = {o.name: o for o in objs}
        first = min(d, key=lambda t: (rank.get(t[0], (99, 99)), t[0]))
        o = byname.get(first[0][0])
        first_ca = S.class_attr(o, first[0][1]) if o is not None else f"?.{first[0][1]}"
        res["violations"].append({
            "sig": {"clause": "value-eq-fresh", "letter": lc, "first_divergent": first_ca,
                    "removes_element": removes_element(w, letter),
                    "explained_by": ghost_explanation(w2, perms, ever_counted, live, objs, m.ranks)},
            "detail": {"n_divergent": len(d), "first": [list(first[0]), first[1], first[2]],
                       "all_divergent_attrs": sorted({f"{k[0]}.{k[1]}" for k, _, _ in d})[:40]}})
    # reference totals
    if letter is not None and W.canon_world(w2) != W.canon_world(w) and not physically_noop(w, letter):
        prev = (S.canon(system.previous_total_energy_footprints_sum_over_period),
                S.canon(system.previous_total_fabrication_footprints_sum_over_period))
        for name, a, b in (("energy", prev[0], pre_tot[0]), ("fabrication", prev[1], pre_tot[1])):
            if not S.close(a, b):
                res["violations"].append({
                    "sig": {"clause": "previous-totals", "letter": lc, "which": name},
                    "detail": {"reported_previous": S.render(a), "totals_before_edit": S.render(b)}})
    init_now = (S.canon(system.initial_total_energy_footprints_sum_over_period),
                S.canon(system.initial_total_fabrication_footprints_sum_over_period))
    for name, a, b in (("energy", init_now[0], init_tot[0]), ("fabrication", init_now[1], init_tot[1])):
        if not S.close(a, b):
            res["violations"].append({
                "sig": {"clause": "initial-totals", "letter": lc, "which": name},
                "detail": {"reported_initial": S.render(a), "totals_at_creation": S.render(b)}})
    res["vdigest"] = S.digest(live, 8)
    res["key"] = json.dumps([perms, W.canon_world(w2), S.graph_digest(objs), S.plain_digest(S.link_snapshot(objs)),
                             res["vdigest"]], sort_keys=True)
    res["expand"] = not res["violations"]
    return res


# ------------------------------------------------------------------------------------------------ alphabets
def multi_letters(w):
    out = []
    names = W.reachable(w)
    jobs = [n for n in names if w["objects"][n]["cls"] == "Job"]
    servers = [n for n in W.creation_order(w) if w["objects"][n]["cls"] == "Server"]
    ups = [n for n in names if w["objects"][n]["cls"] == "UsagePattern"]
    steps = [n for n in names if w["objects"][n]["cls"] == "UsageJourneyStep"]
    if jobs and len(servers) > 1:
        j = jobs[0]
        other = [s for s in servers if s != w["objects"][j]["attrs"]["server"][1]][0]
        out.append(["multi", [["set", j, "data_transferred", ["q", 300.0, "kilobyte"]], ["link", j, "server", other]]])
    if ups and steps:
        v = w["objects"][ups[0]]["attrs"]["hourly_usage_journey_starts"]
        out.append(["multi", [["set", ups[0], "hourly_usage_journey_starts",
                               ["h", [2.0, 2.0, 2.0, 9.0][:len(v[1])], v[2], v[3]]],
                              ["set", steps[0], "user_time_spent", ["q", 61.0, "minute"]]]])
    if len(jobs) > 1:
        out.append(["multi", [["set", jobs[0], "ram_needed", ["q", 100.0, "megabyte"]],
                              ["set", jobs[1], "compute_needed", ["q", 0.2, "cpu_core"]]]])
    # two quantities in one update (their update chains interleave when they share descendants)
    for a, b in zip(ups, ups[1:]):
        va, vb = (w["objects"][x]["attrs"]["hourly_usage_journey_starts"] for x in (a, b))
        out.append(["multi", [["set", a, "hourly_usage_journey_starts", ["h", [x * 2 for x in va[1]], va[2], va[3]]],
                              ["set", b, "hourly_usage_journey_starts", ["h", [x * 2 for x in vb[1]], vb[2], vb[3]]]]])
    for a, b in zip(jobs, jobs[1:]):
        out.append(["multi", [["set", a, "data_transferred", ["q", 300.0, "kilobyte"]],
                              ["set", b, "data_transferred", ["q", 400.0, "kilobyte"]]]])
        out.append(["multi", [["set", a, "data_stored", ["q", 150.0, "kilobyte"]],
                              ["set", b, "request_duration", ["q", 61.0, "minute"]]]])
    if steps and jobs:
        out.append(["multi", [["set", steps[0], "user_time_spent", ["q", 61.0, "minute"]],
                              ["set", jobs[-1], "data_transferred", ["q", 300.0, "kilobyte"]]]])
    if len(ups) > 1:
        cs = [n for n in W.creation_order(w) if w["objects"][n]["cls"] == "Country"]
        nws = [n for n in W.creation_order(w) if w["objects"][n]["cls"] == "Network"]
        if len(cs) > 1 and len(nws) > 1:
            c_other = [c for c in cs if c != w["objects"][ups[1]]["attrs"]["country"][1]][0]
            n_other = [c for c in nws if c != w["objects"][ups[1]]["attrs"]["network"][1]][0]
            out.append(["multi", [["link", ups[1], "country", c_other], ["link", ups[1], "network", n_other]]])
    return out


def pair_letters(w, w0, exhaustive=False):
    """Grouped updates [quantity change, link/list change]. Quick: pairs whose two objects are related (same object,
    or one references the other directly); thorough: every pair of the core alphabet."""
    nums = [e for e in core_numeric(w, w0)]
    structural = H.link_letters(w) + H.list_letters(w, allow_empty=False)
    out = []

    def refs(n):
        r = set()
        for v in w["objects"][n]["attrs"].values():
            if v[0] == "link":
                r.add(v[1])
            elif v[0] == "list":
                r.update(v[1])
        return r
    seen = set()
    for n_ in nums:
        for l_ in structural:
            a, b = n_[1], l_[1]
            related = a == b or a in refs(b) or b in refs(a)
            if not (exhaustive or related):
                continue
            if not exhaustive:
                k = (w["objects"][a]["cls"], n_[2], w["objects"][b]["cls"], l_[2], l_[0])
                if k in seen:
                    continue
                seen.add(k)
            out.append(["multi", [n_, l_]])
    return out


def core_numeric(w, w0):
    keep_attrs = {"user_time_spent", "request_duration", "data_stored", "data_transferred", "ram_needed",
                  "hourly_usage_journey_starts", "server_type", "average_carbon_intensity", "timezone",
                  "bandwidth_energy_intensity", "data_storage_duration", "base_storage_need", "power"}
    nums = [e for e in H.numeric_letters(w, w0, specials=True) if e[2] in keep_attrs]
    seen, red = set(), []
    for e in nums:
        k = (e[1], e[2])
        orig = w0["objects"][e[1]]["attrs"].get(e[2])
        if k not in seen or e[3] == orig:
            red.append(e)
            seen.add(k)
    return red


def lop_letters(w):
    """A few in-place list mutators (the full set is C16's business; here they are edits like any other)."""
    out = []
    for n in W.reachable(w):
        o = w["objects"][n]
        for a, v in o["attrs"].items():
            if v[0] != "list" or (o["cls"], a) not in H.LIST_ELEM:
                continue
            grp = H.LIST_ELEM[(o["cls"], a)]
            cands = [c for c in H.universe(w, H.JOB_CLASSES if grp == "Job" else [grp]) if c not in v[1]]
            if cands:
                out.append(["lop", n, a, "append", [cands[0]]])
                out.append(["lop", n, a, "iadd", [[cands[0]]]])
                out.append(["lop", n, a, "insert", [0, cands[0]]])
            if len(v[1]) > 1:
                out.append(["lop", n, a, "pop", []])
                out.append(["lop", n, a, "delitem", [0]])
    return out


def full_alphabet(w, w0):
    return (H.numeric_letters(w, w0) + H.link_letters(w) + H.list_letters(w) + lop_letters(w) + multi_letters(w)
            + pair_letters(w, w0))


def pairs_alphabet(w, w0):
    return pair_letters(w, w0, exhaustive=True)


def core_alphabet(w, w0):
    """Link/list letters + the numeric letters that share descendants with them."""
    return core_numeric(w, w0) + H.link_letters(w) + H.list_letters(w) + multi_letters(w)


def dep2_alphabet(w, w0):
    """Small alphabet for exhaustive depth 2: the inputs of the per-usage-pattern dictionaries and every re-pointable link."""
    attrs = {"hourly_usage_journey_starts", "timezone", "user_time_spent", "request_duration", "data_transferred", "data_stored"}
    seen, nums = set(), []
    for e in core_numeric(w, w0):
        if e[2] in attrs and (e[1], e[2]) not in seen:
            seen.add((e[1], e[2]))
            nums.append(e)
    return nums + H.link_letters(w)


def emptying_alphabet(w, w0):
    """Every list attribute of every reachable object set to the empty list (states in which a step has no job, a
    journey no step ...: the next letters start from there)."""
    out = []
    for n in W.reachable(w):
        if w["objects"][n]["cls"] == "System":
            continue
        for a, v in w["objects"][n]["attrs"].items():
            if v[0] == "list" and v[1]:
                out.append(["list", n, a, []])
    return out


def make_alphabet(fam, mode_by_depth):
    w0 = W.family(fam)

    def alphabet_of(node, info, depth):
        w = H.fold_spec(W.family(fam), node["history"])
        mode = mode_by_depth.get(depth, "core")
        if mode == "pairs":
            return pairs_alphabet(w, w0)
        if mode == "dep2":
            return dep2_alphabet(w, w0)
        if mode == "emptying":
            return emptying_alphabet(w, w0)
        if mode == "links+lists":
            return H.link_letters(w) + H.list_letters(w)
        return full_alphabet(w, w0) if mode == "full" else core_alphabet(w, w0)
    return alphabet_of


CAMPAIGNS = {
    "quick": [
        {"world": "W1", "schedules": ("rev", 0), "depth": 1, "modes": {1: "full"}},
        {"world": "W1", "schedules": ("dev", 1, ["UsagePattern", "Job"]), "depth": 1, "modes": {1: "core"}},
        {"world": "W2", "schedules": ("default", 0), "depth": 1, "modes": {1: "full"}},
        {"world": "W2", "schedules": ("rev", 0), "depth": 1, "modes": {1: "core"}},
        {"world": "W3", "schedules": ("default", 0), "depth": 1, "modes": {1: "full"}},
        {"world": "W2", "schedules": ("default", 0), "depth": 2, "modes": {1: "dep2", 2: "dep2"}},
        {"world": "W3", "schedules": ("default", 0), "depth": 2, "modes": {1: "dep2", 2: "dep2"}, "max": 400},
        # from every state in which one list has been emptied: every link / list letter
        {"world": "W2", "schedules": ("default", 0), "depth": 2, "modes": {1: "emptying", 2: "links+lists"}},
        {"world": "W1", "schedules": ("default", 0), "depth": 2, "modes": {1: "emptying", 2: "links+lists"}},
    ],
    "thorough": [
        {"world": "W1", "schedules": ("dev", 1), "depth": 1, "modes": {1: "full"}},
        {"world": "W1", "schedules": ("dev", 2, ["UsagePattern", "Job"]), "depth": 1, "modes": {1: "full"}},
        {"world": "W2", "schedules": ("dev", 2), "depth": 1, "modes": {1: "full"}},
        {"world": "W3", "schedules": ("dev", 1, ["UsagePattern", "Job", "Server"]), "depth": 1, "modes": {1: "full"}},
        {"world": "W1c", "schedules": ("rev", 0), "depth": 1, "modes": {1: "full"}},
        {"world": "W4", "schedules": ("default", 0), "depth": 1, "modes": {1: "full"}},
        {"world": "W1", "schedules": ("rev", 0), "depth": 1, "modes": {1: "pairs"}},
        {"world": "W2", "schedules": ("rev", 0), "depth": 1, "modes": {1: "pairs"}},
        {"world": "W3", "schedules": ("default", 0), "depth": 1, "modes": {1: "pairs"}},
        {"world": "W1", "schedules": ("rev", 0), "depth": 2, "modes": {1: "core", 2: "core"}},
        {"world": "W2", "schedules": ("rev", 0), "depth": 2, "modes": {1: "core", 2: "core"}},
        {"world": "W3", "schedules": ("default", 0), "depth": 2, "modes": {1: "core", 2: "core"}, "max": 6000},
        {"world": "W1", "schedules": ("default", 0), "depth": 3, "modes": {1: "dep2", 2: "dep2", 3: "dep2"}},
        {"world": "W2", "schedules": ("default", 0), "depth": 3, "modes": {1: "dep2", 2: "dep2", 3: "dep2"}},
        {"world": "W2", "schedules": ("default", 0), "depth": 2, "modes": {1: "dep2", 2: "dep2"}, "merge": False},
        {"world": "W3", "schedules": ("default", 0), "depth": 2, "modes": {1: "emptying", 2: "full"}},
        {"world": "W1c", "schedules": ("default", 0), "depth": 2, "modes": {1: "emptying", 2: "core"}},
    ],
}


def schedules_for(fam, spec):
    w = W.family(fam)
    kind, n = spec[0], spec[1]
    if kind == "dev":
        return H.perm_sets(w, max_deviations=n, only_groups=spec[2] if len(spec) > 2 else None)
    if kind == "rev":
        return [{}, H.reversed_schedule(w)]
    return [{}]


def main(tier):
    prepare()
    run = report.Run(PROP, tier)
    engine.start(run_task, warm=boot.warm_up)
    total = {"states": 0, "transitions": 0, "campaigns": [], "outcomes": {}, "distinct_value_outcomes": 0}
    samples = []
    exhaustive = True
    for c in CAMPAIGNS[tier]:
        scheds = schedules_for(c["world"], c["schedules"])
        roots = [{"world": c["world"], "perms": p, "history": []} for p in scheds]
        st = engine.bfs(roots, make_alphabet(c["world"], c["modes"]), c["depth"], run,
                        max_states=c.get("max"), merge=c.get("merge", True))
        total["states"] += st["states"]
        total["transitions"] += st["transitions"]
        total["distinct_value_outcomes"] += st["value_digests"]
        for k, v in st["outcomes"].items():
            total["outcomes"][k] = total["outcomes"].get(k, 0) + v
        if st["capped"]:
            exhaustive = False
        total["campaigns"].append({"world": c["world"], "schedules": len(scheds), "schedule_rule": list(c["schedules"]),
                                   "depth": c["depth"], "alphabet_modes": c["modes"], "merged": c.get("merge", True),
                                   "states": st["states"], "transitions": st["transitions"], "levels": st["levels"],
                                   "capped": st["capped"], "distinct_value_snapshots": st["value_digests"]})
        samples += st["samples"][:2]
    engine.stop()
    cov = {"states": total["states"], "transitions": total["transitions"],
           "traces_validated_against_impl": total["transitions"],
           "samples": samples[:8], "exhaustive": exhaustive, "campaigns": total["campaigns"],
           "outcomes": total["outcomes"], "distinct_value_outcomes": total["distinct_value_outcomes"],
           "bounds": "see campaigns: depth, schedules (deviation bound), alphabet mode per depth",
           "explanation": "every transition executes the real ModelingUpdate on a live model rebuilt by replay and "
                          "compares all calculated attributes with a fresh build of the same final inputs"}
    return run.finish(cov, assumptions=[
        "hash seam: ModelingObject.__hash__ replaced by a rank table (every order it yields is one the library can produce)",
        "fresh-rebuild oracle = forward closure of the system; tolerance rel 1e-9 / abs 1e-12 in base units",
        "states after a violation or a rejected letter are not expanded"])


if __name__ == "__main__":
    try:
        sys.exit(main(sys.argv[1] if len(sys.argv) > 1 else "quick"))
    except engine.CrashError as e:
        print("HARNESS-ERROR", e)
        sys.exit(2)
