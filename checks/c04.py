"""C04 — infrastructure is always sized to cover the computed need.

Bounded exhaustive enumeration of small complete models (one server + one storage, one writing job and optionally
one deleting job whose usage patterns cover equal / overlapping / disjoint UTC windows), built with the real
library, compared hour by hour with a boring reference model written here on ``dict[hour -> float]``:

* server: raw need = max(RAM need / available RAM, CPU need / available CPU) per timestamp; serverless = raw,
  autoscaling = ceil(raw), on-premise = a constant >= ceil(peak); a user-fixed count is honoured or the build raises;
* storage: cumulative need(t) = base + sum_{s<=t} replicated writes(s) - expiries(s) + replicated deletions(s), all
  keyed by timestamp; instances x capacity >= need >= 0; active <= provisioned; fixed count honoured or raises;
* a deletion-free model is never rejected for negative storage; a model the reference accepts is not rejected at all
  (a numpy broadcast error = "combined by position").

A model is fully described by a small JSON ``cfg``; ``run_task({"cfgs": [cfg, ...]})`` builds each of them.
"""
import json
import math
import sys
import time
import traceback
from datetime import datetime, timedelta

from efmc import boot, engine, report, world as W

PROP = "C04"
RTOL = 1e-9
T0 = datetime(2025, 1, 1, 5)      # hour 0 of the reference = 2025-01-01 05:00 UTC (not midnight, on purpose)
LONG_LOAD = [1, 3, 0, 7, 0, 0, 1, 1, 3, 7, 7, 0, 1, 0, 3, 3, 0, 7, 1, 1, 0, 0, 3, 1, 7, 3]   # 26 h (> 1 day)
DELETER_PATTERN = [1, 0, 2, 1, 3, 0, 1, 2]
SECOND_WRITER_WINDOW = [3, 0, 1]     # load of the writer's second usage pattern (cfg["wsplit"] = empty hours before it)

AMOUNTS = {"100kB": (100.0, "kilobyte"), "0.3MB": (0.3, "megabyte"), "33.3kB": (33.3, "kilobyte")}
DEL_AMOUNTS = {"small": (-20.0, "kilobyte"), "big": (-0.25, "megabyte")}      # "same" = minus the writer's amount
DURATIONS = {"1h": (60.0, "minute"), "2h": (2.0, "hour"), "long": (5.0, "year")}    # units differ on purpose
BASES = {"0": (0.0, "terabyte"), "small": (50.0, "kilobyte"), "large": (2.5, "gigabyte")}
KB = {"kilobyte": 1.0, "megabyte": 1e3, "gigabyte": 1e6, "terabyte": 1e9}       # everything of the reference in kB

# server parameter sets: (ram GB, utilisation, base ram GB, compute cores, base compute cores)
CAPS = {
    "ample":        (128.0, 0.9, 0.0, 24.0, 0.0),      # raw < 1
    "ram-limit":    (8.0, 0.5, 2.0, 64.0, 0.0),        # available RAM exactly 2 GB = one writer request: raw is an integer
    "cpu-limit":    (128.0, 0.9, 0.0, 4.0, 1.0),       # available CPU 4*0.9-1 = 2.6 cores: raw non-integer, CPU dominates
    "cpu-exact":    (128.0, 1.0, 0.0, 4.0, 3.0),       # available CPU exactly 1 core: raw is an integer, CPU dominates
    "float-limit":  (6.0, 0.9, 3.4, 64.0, 0.0),        # available RAM = 5.4 - 3.4 ~ 2 GB up to float noise
    "zero-avail":   (100.0, 0.5, 50.0, 24.0, 0.0),     # base consumption == capacity * utilisation
    "exceeded-ram": (100.0, 0.5, 51.0, 24.0, 0.0),
    "exceeded-cpu": (128.0, 0.5, 0.0, 24.0, 13.0),
}
JOB_RES = {"jw": (2.0, 1.0), "jd": (1.0, 2.0)}       # (ram GB, cpu cores) per request lasting exactly one hour


# =========================================================================================== reference model
def hstr(h):
    return (T0 + timedelta(hours=h)).strftime("%Y-%m-%d %H:%M")


def deleter_window(mix, n):
    """(start hour, length) of the deleting job's usage pattern for a writer active over hours 0..n-1."""
    if mix in ("equal", "same-step"):
        return 0, n
    if mix == "overlap":
        return (n + 1) // 2, n
    if mix == "inside":
        return 1, n - 2
    if mix == "adjacent":
        return n, 2
    if mix == "disjoint":
        return n + 2, 3
    if mix == "before":
        return -3, 2
    raise ValueError(mix)


def valid_cfg(cfg):
    n = len(cfg["load"])
    if cfg["mix"] == "inside" and n < 3:
        return False
    return True


def ceil_lo(x):
    return math.ceil(x - RTOL * max(1.0, abs(x)))


def ceil_hi(x):
    return math.ceil(x + RTOL * max(1.0, abs(x)))


def reference(cfg):
    """Everything the reference model predicts for cfg (no library involved)."""
    load = cfg["load"]
    n = len(load)
    occ = {"jw": {h: float(v) for h, v in enumerate(load)}}
    if cfg.get("wsplit"):
        # the writing job is reached through a second usage pattern whose window starts after `wsplit` empty hours
        for i, v in enumerate(SECOND_WRITER_WINDOW):
            occ["jw"][n + cfg["wsplit"] + i] = float(v)
    if cfg["mix"] != "w":
        s, L = deleter_window(cfg["mix"], n)
        dl = [DELETER_PATTERN[i % len(DELETER_PATTERN)] for i in range(L)]
        if cfg["mix"] == "same-step":
            occ["jd"] = dict(occ["jw"])      # same step of the same journey: same hours as the writer
        else:
            occ["jd"] = {s + i: float(v) for i, v in enumerate(dl)}
    T = sorted(set().union(*[set(o) for o in occ.values()]))
    ref = {"occ": occ, "T": T, "must": set(), "may": set()}

    # ---------------------------------------------------------------- server
    ram, util, bram, cpu, bcpu = CAPS[cfg["cap"]]
    av_ram, av_cpu = ram * util - bram, cpu * util - bcpu
    ref["avail"] = (av_ram, av_cpu)
    sv_ok = True
    for av, capa in ((av_ram, ram * util), (av_cpu, cpu * util)):
        if av < -RTOL * capa:
            ref["must"].add("capacity")
            sv_ok = False
        elif av <= RTOL * capa:
            # zero available capacity: no finite sizing exists for a positive need; a refusal (ValueError) is fine,
            # a built model must still give a defined count at every hour, a crash is not a refusal
            ref["may"].update(("capacity", "fixed-server"))
            sv_ok = False
    ref["server_defined"] = sv_ok
    if sv_ok:
        raw = {}
        for h in T:
            r = sum(occ[j].get(h, 0.0) * JOB_RES[j][0] for j in occ) / av_ram
            c = sum(occ[j].get(h, 0.0) * JOB_RES[j][1] for j in occ) / av_cpu
            raw[h] = max(r, c)
        ref["sv_raw"] = raw
        ref["sv_peak"] = max(raw.values())
    # ---------------------------------------------------------------- storage
    amt = AMOUNTS[cfg["amount"]]
    a_kb = amt[0] * KB[amt[1]]
    rep = float(cfg["rep"])
    base = BASES[cfg["base"]][0] * KB[BASES[cfg["base"]][1]]
    writes = {h: v * a_kb * rep for h, v in occ["jw"].items()}
    dels = {}
    if "jd" in occ:
        d_kb = -a_kb if cfg["damt"] == "same" else DEL_AMOUNTS[cfg["damt"]][0] * KB[DEL_AMOUNTS[cfg["damt"]][1]]
        dels = {h: v * d_kb * rep for h, v in occ["jd"].items()}
        ref["del_kb"] = d_kb
    dq = DURATIONS[cfg["dur"]]
    D = math.ceil(dq[0] * {"minute": 1 / 60, "hour": 1.0, "year": 8766.0}[dq[1]])
    wmax, tmax, tmin = max(writes), T[-1], T[0]
    exp_ref = {h + D: w for h, w in writes.items() if h + D <= tmax}      # by timestamp, over the modelled period
    exp_alt = {h + D: w for h, w in writes.items() if h + D <= wmax}      # truncated at the last hour with a write
    ref.update({"writes": writes, "dels": dels, "exp_ref": exp_ref, "exp_alt": exp_alt, "base_kb": base,
                "a_kb": a_kb, "D": D})
    scale = base + sum(abs(x) for x in writes.values()) * 2 + sum(abs(x) for x in dels.values())
    ref["tol_kb"] = RTOL * scale + 1e-15

    def cumulative(exp):
        out, run = {}, base
        for h in range(tmin, tmax + 1):
            run += writes.get(h, 0.0) + dels.get(h, 0.0) - exp.get(h, 0.0)
            out[h] = run
        return out
    cum_ref, cum_alt = cumulative(exp_ref), cumulative(exp_alt)
    ref["cum_ref"], ref["cum_alt"] = cum_ref, cum_alt
    lowest = min(cum_ref.values())
    if dels:
        if lowest < -ref["tol_kb"]:
            ref["must"].add("negative-storage")
        elif lowest < ref["tol_kb"]:
            ref["may"].add("negative-storage")
    cap_kb = storage_capacity_kb(cfg, a_kb)
    ref["cap_kb"] = cap_kb
    peak = max(cum_ref.values()) / cap_kb
    ref["st_peak_lo"], ref["st_peak_hi"] = ceil_lo(peak), ceil_hi(peak)
    # ---------------------------------------------------------------- fixed counts
    ref["fix_sv"] = ref["fix_st"] = None
    if cfg["fix_sv"] != "none":
        if sv_ok:
            ref["fix_sv"] = fixed_value(cfg["fix_sv"], ceil_hi(ref["sv_peak"]))
        else:
            ref["fix_sv"] = 3
        if cfg["stype"] != "on-premise":
            ref["may"].add("fixed-not-allowed")       # refused by the library's allowed-values rule: a refusal is fine
        elif sv_ok:
            if ref["fix_sv"] < ceil_lo(ref["sv_peak"]):
                ref["must"].add("fixed-server")
            elif ref["fix_sv"] < ceil_hi(ref["sv_peak"]):
                ref["may"].add("fixed-server")
    if cfg["fix_st"] != "none":
        ref["fix_st"] = fixed_value(cfg["fix_st"], ref["st_peak_hi"])
        if ref["fix_st"] < ref["st_peak_lo"]:
            ref["must"].add("fixed-storage")
        elif ref["fix_st"] < ref["st_peak_hi"]:
            ref["may"].add("fixed-storage")
    return ref


def fixed_value(kind, peak):
    return {"peak-1": peak - 1, "peak": peak, "larger": peak + 2}[kind]


def storage_capacity_kb(cfg, a_kb):
    return {"1TB": 1e9, "1GB": 1e6, "2xamount": 2 * a_kb}[cfg["scap"]]


def skip_reason(cfg, ref):
    """Configurations that do not denote a model (a negative fixed count is C14's business)."""
    if ref["fix_sv"] is not None and ref["fix_sv"] < 0:
        return "negative-fixed-count"
    if ref["fix_st"] is not None and ref["fix_st"] < 0:
        return "negative-fixed-count"
    return None


# =========================================================================================== world construction
def make_world(cfg, ref):
    Q, link, lst, add = W.Q, W.link, W.lst, W.add
    w = W.new_world("C04")
    a_kb, cap_kb = ref["a_kb"], ref["cap_kb"]
    amt, dq, bq = AMOUNTS[cfg["amount"]], DURATIONS[cfg["dur"]], BASES[cfg["base"]]
    st = dict(data_storage_duration=Q(*dq), data_replication_factor=Q(cfg["rep"], "dimensionless"),
              base_storage_need=Q(*bq))
    if cfg["scap"] == "1TB":
        st["storage_capacity"] = Q(1, "terabyte")
    elif cfg["scap"] == "1GB":
        st["storage_capacity"] = Q(1, "gigabyte")
    else:
        st["storage_capacity"] = Q(2 * amt[0], amt[1])
    if ref["fix_st"] is not None:
        st["fixed_nb_of_instances"] = Q(ref["fix_st"], "dimensionless")
    add(w, "st", "Storage", **st)
    ram, util, bram, cpu, bcpu = CAPS[cfg["cap"]]
    sv = dict(storage=link("st"), server_type=["c", cfg["stype"]], ram=Q(ram, "gigabyte"),
              server_utilization_rate=Q(util, "dimensionless"), base_ram_consumption=Q(bram, "gigabyte"),
              compute=Q(cpu, "cpu_core"), base_compute_consumption=Q(bcpu, "cpu_core"))
    if ref["fix_sv"] is not None:
        sv["fixed_nb_of_instances"] = Q(ref["fix_sv"], "dimensionless")
    add(w, "sv", "Server", **sv)
    add(w, "jw", "Job", server=link("sv"), request_duration=Q(1, "hour"), data_stored=Q(*amt),
        ram_needed=Q(JOB_RES["jw"][0], "gigabyte"), compute_needed=Q(JOB_RES["jw"][1], "cpu_core"))
    occ = ref["occ"]
    if "jd" in occ:
        dam = (-amt[0], amt[1]) if cfg["damt"] == "same" else DEL_AMOUNTS[cfg["damt"]]
        add(w, "jd", "Job", server=link("sv"), request_duration=Q(1, "hour"), data_stored=Q(*dam),
            ram_needed=Q(JOB_RES["jd"][0], "gigabyte"), compute_needed=Q(JOB_RES["jd"][1], "cpu_core"))
    same_step = cfg["mix"] == "same-step"
    add(w, "s1", "UsageJourneyStep", user_time_spent=Q(20, "minute"), jobs=lst(*(["jw", "jd"] if same_step else ["jw"])))
    add(w, "uj1", "UsageJourney", uj_steps=lst("s1"))
    add(w, "nw", "Network")
    W._country(w, "c", "C", 100, "UTC")
    add(w, "d", "Device")
    W._up(w, "up1", "uj1", "nw", "c", ["d"], cfg["load"], hstr(0))
    ups = ["up1"]
    if cfg.get("wsplit"):
        W._up(w, "up1b", "uj1", "nw", "c", ["d"], SECOND_WRITER_WINDOW, hstr(len(cfg["load"]) + cfg["wsplit"]))
        ups.append("up1b")
    if "jd" in occ and not same_step:
        add(w, "s2", "UsageJourneyStep", user_time_spent=Q(20, "minute"), jobs=lst("jd"))
        add(w, "uj2", "UsageJourney", uj_steps=lst("s2"))
        hs = sorted(occ["jd"])
        W._up(w, "up2", "uj2", "nw", "c", ["d"], [occ["jd"][h] for h in hs], hstr(hs[0]))
        ups.append("up2")
    w["objects"]["sys"] = {"cls": "System", "attrs": {"usage_patterns": lst(*ups)}}
    return w


# =========================================================================================== observation
_lib = {}


def prepare():
    boot.core()
    if not _lib:
        import numpy as np
        import pandas as pd
        from efootprint.abstract_modeling_classes.explainable_objects import EmptyExplainableObject
        from efootprint.constants.units import u
        _lib.update(np=np, pd=pd, Empty=EmptyExplainableObject, u=u, t0=pd.Timestamp(T0, tz="UTC"),
                    fac={})


def series(v, unit):
    """dict[hour -> float in `unit`] of a library hourly value, by UTC timestamp; None when empty;
    'DUP' marker when two rows share a timestamp."""
    if isinstance(v, _lib["Empty"]):
        return None
    pd = _lib["pd"]
    df = v.value
    key = (str(v.unit), unit)
    f = _lib["fac"].get(key)
    if f is None:
        f = float(_lib["u"].Quantity(1.0, v.unit).to(unit).magnitude)
        _lib["fac"][key] = f
    idx = df.index
    idx = idx.tz_localize("UTC") if idx.tz is None else idx.tz_convert("UTC")
    out = {}
    for ts, x in zip(idx, df["value"].values._data):
        hh = (ts - _lib["t0"]) / pd.Timedelta(hours=1)
        h = int(round(hh))
        if abs(hh - h) > 1e-9:
            h = hh
        try:
            val = float(x) * f
        except TypeError:
            val = float("nan")
        if h in out:
            out["DUP"] = True
        out[h] = val
    return out


def near(a, b, tol_abs=0.0):
    if a != a or b != b or a in (float("inf"), float("-inf")) or b in (float("inf"), float("-inf")):
        return False
    return abs(a - b) <= max(RTOL * max(abs(a), abs(b)), tol_abs, 1e-15)


def classify_error(ex):
    msg = str(ex)
    if isinstance(ex, ValueError):
        if "negative cumulative storage need" in msg:
            return "negative-storage"
        if "instances computed from its resources need is superior" in msg:
            return "fixed-storage" if "user/server" in msg else "fixed-server"
        if "has available capacity of" in msg:
            return "capacity"
        if "not in the list of possible values" in msg:
            return "fixed-not-allowed"
        if "broadcast" in msg or "does not match length of index" in msg:
            return "shape-mismatch"
    return "other:" + type(ex).__name__


def where_of(ex):
    """'Class.update_function' of the innermost library frame that is a method of a modeling object."""
    best = "?"
    tb = ex.__traceback__
    while tb is not None:
        fr = tb.tb_frame
        slf = fr.f_locals.get("self")
        name = fr.f_code.co_name
        if slf is not None and "efootprint" in fr.f_code.co_filename and hasattr(slf, "calculated_attributes") \
                and name != "compute_calculated_attributes" and not name.startswith("launch_") \
                and name not in ("__init__", "after_init"):
            best = f"{type(slf).__name__}.{name}"
        tb = tb.tb_next
    return best


def windows_class(cfg):
    if cfg["mix"] == "w":
        return "writer-only"
    if cfg["mix"] in ("equal", "same-step"):
        return "equal"
    return "different"


def cfg_size(cfg):
    return (len(cfg["load"]) * 10 + (0 if cfg["mix"] == "w" else 5) + (cfg["fix_sv"] != "none") + (cfg["fix_st"] != "none")
            + (cfg["base"] != "0") + (cfg["rep"] != 1) + (cfg["stype"] != "autoscaling") + (cfg["cap"] != "ample")
            + (cfg["scap"] != "1TB") + sum(1 for x in cfg["load"] if x) + (30 if cfg.get("wsplit") else 0))


# =========================================================================================== one model
def check_model(cfg):
    """Build the model of cfg with the real library and evaluate every clause. Returns
    (outcome string, [violations], counters, digest material)."""
    ref = reference(cfg)
    viol, cnt = [], {}

    def bad(sig, **detail):
        viol.append({"sig": sig, "detail": detail, "cfg": cfg, "size": cfg_size(cfg)})

    sk = skip_reason(cfg, ref)
    if sk:
        return "skipped:" + sk, viol, {"skipped_not_a_model": 1}, None
    live = bool(cfg.get("live_fix"))
    if live:
        # the fixed counts are assigned on the live model (built without them): same demands as for a model built at once
        _bad = bad

        def bad(sig, **detail):     # noqa
            _bad(dict(sig, live_fix="yes"), **detail)
    w = make_world(cfg, dict(ref, fix_st=None, fix_sv=None) if live else ref)
    must, may = ref["must"], ref["may"]
    try:
        m = W.build(w)
        if live:
            if ref["fix_st"] is not None:
                W.apply_live(m, ["set", "st", "fixed_nb_of_instances", W.Q(ref["fix_st"], "dimensionless")])
            if ref["fix_sv"] is not None:
                W.apply_live(m, ["set", "sv", "fixed_nb_of_instances", W.Q(ref["fix_sv"], "dimensionless")])
    except Exception as ex:  # noqa
        reason = classify_error(ex)
        msg = str(ex)[:300]
        cnt["rejected:" + reason] = 1
        if reason == "negative-storage" and not ref["dels"]:
            bad({"clause": "deletion-free-model-rejected-negative-storage"}, error=msg,
                reference_min_cumulative_kB=min(ref["cum_ref"].values()))
        elif must:
            if reason not in must and reason not in may:
                cnt["rejected_for_another_reason_than_reference:" + reason] = 1
        elif not ref["server_defined"]:
            cnt["zero_available_capacity_model_rejected:" + reason] = 1
            if not isinstance(ex, ValueError):
                bad({"clause": "zero-available-capacity", "what": "crash:" + type(ex).__name__, "where": where_of(ex)},
                    error=msg, traceback=traceback.format_exc()[-1200:])
        elif reason in may:
            cnt["boundary_case_rejected:" + reason] = 1
        elif reason == "shape-mismatch":
            bad({"clause": "combined-by-position", "where": where_of(ex)}, error=msg, windows=windows_class(cfg),
                hours_by_job={j: sorted(o) for j, o in ref["occ"].items()})
        else:
            bad({"clause": "accepted-model-rejected", "reason": reason, "where": where_of(ex)}, error=msg,
                windows=windows_class(cfg), traceback=traceback.format_exc()[-1200:])
        return "raised:" + reason, viol, cnt, ("raised", reason)

    # ------------------------------------------------------------------------------------------------ built
    if must:
        for r in sorted(must):
            clause = {"capacity": "base-consumption-exceeds-capacity-accepted",
                      "negative-storage": "negative-cumulative-need-accepted",
                      "fixed-server": "silent-under-provisioning", "fixed-storage": "silent-under-provisioning"}[r]
            sig = {"clause": clause}
            if clause == "silent-under-provisioning":
                sig["what"] = r
            bad(sig, reference_reasons=sorted(must), fix_sv=ref["fix_sv"], fix_st=ref["fix_st"],
                sv_peak=ref.get("sv_peak"), st_peak=[ref["st_peak_lo"], ref["st_peak_hi"]])
    for r in may:
        cnt["boundary_case_accepted:" + r] = 1
    sv, st = m.objs["sv"], m.objs["st"]
    T = ref["T"]
    ncmp = 0
    dig = ["built"]

    # ---------------------------------------------------------------- server
    raw = series(sv.raw_nb_of_instances, "dimensionless")
    nb = series(sv.nb_of_instances, "dimensionless")
    if not ref["server_defined"]:
        cnt["zero_available_capacity_model_built"] = 1
        undefined = raw is None or nb is None or any(x != x for x in raw.values()) or any(x != x for x in nb.values()) \
            or any(h not in nb for h in raw)
        if undefined:
            bad({"clause": "zero-available-capacity", "what": "undefined-instance-count"}, stype=cfg["stype"],
                raw=raw, nb=nb, available=ref["avail"])
        elif any(abs(x) == float("inf") for x in nb.values()):
            cnt["zero_available_capacity_gives_infinite_instances"] = 1
    elif raw is None or nb is None:
        bad({"clause": "server-instances", "what": "empty-result"}, raw=raw, nb=nb)
    else:
        stype = cfg["stype"]
        if raw.get("DUP") or nb.get("DUP"):
            bad({"clause": "server-instances", "what": "duplicate-timestamps"})
        if sorted(raw) != T:
            bad({"clause": "server-raw-need-by-timestamp", "what": "hours"}, hours=sorted(raw, key=float), expected=T)
        else:
            for h in T:
                ncmp += 1
                if not near(raw[h], ref["sv_raw"][h]):
                    bad({"clause": "server-raw-need-by-timestamp", "what": "value"}, hour=h, library=raw[h],
                        reference=ref["sv_raw"][h], windows=windows_class(cfg))
                    break
        missing = [h for h in raw if h not in nb]
        if missing:
            bad({"clause": "server-instances", "stype": stype, "what": "no-instance-count-at-an-hour-with-need"},
                hours_of_need=sorted(raw, key=float), hours_of_instances=sorted(nb, key=float))
        else:
            peak = max(raw.values())
            vals = [nb[h] for h in raw]
            for h in raw:
                ncmp += 1
                r, x = raw[h], nb[h]
                if not (x >= r - RTOL * max(1.0, abs(r))):
                    bad({"clause": "server-instances", "stype": stype, "what": "below-raw-need"}, hour=h, nb=x, raw=r)
                    break
                if stype == "serverless" and not near(x, r):
                    bad({"clause": "server-instances", "stype": stype, "what": "not-equal-to-raw"}, hour=h, nb=x, raw=r)
                    break
                if stype == "autoscaling" and x not in (ceil_lo(r), ceil_hi(r)):
                    bad({"clause": "server-instances", "stype": stype, "what": "not-ceiling-of-raw"}, hour=h, nb=x, raw=r)
                    break
            if stype == "on-premise":
                if any(v != vals[0] for v in vals) or any(nb[h] != vals[0] for h in nb):
                    bad({"clause": "server-instances", "stype": stype, "what": "not-constant"}, nb=vals)
                elif vals[0] < ceil_lo(peak) or vals[0] != int(vals[0]):
                    bad({"clause": "server-instances", "stype": stype, "what": "below-ceiling-of-peak"}, nb=vals[0],
                        peak=peak)
                if ref["fix_sv"] is not None and any(v != ref["fix_sv"] for v in vals):
                    bad({"clause": "fixed-count-not-honoured", "what": "server"}, nb=vals, fixed=ref["fix_sv"])
            elif ref["fix_sv"] is not None and any(v != ref["fix_sv"] for v in vals):
                bad({"clause": "fixed-count-not-honoured", "what": "server", "stype": stype}, nb=vals,
                    fixed=ref["fix_sv"])
            dig.append([round(nb[h], 6) for h in sorted(nb, key=float)])

    # ---------------------------------------------------------------- storage
    cum = series(st.full_cumulative_storage_need, "kilobyte")
    snb = series(st.nb_of_instances, "dimensionless")
    act = series(st.nb_of_active_instances, "dimensionless")
    tol = ref["tol_kb"]
    cap = ref["cap_kb"]
    if cum is None or snb is None or act is None:
        bad({"clause": "storage-instances", "what": "empty-result"}, cum=cum, nb=snb, active=act)
    else:
        if cum.get("DUP") or snb.get("DUP") or act.get("DUP"):
            bad({"clause": "storage-instances", "what": "duplicate-timestamps"})
            for d in (cum, snb, act):
                d.pop("DUP", None)
        hours = sorted(cum, key=float)
        cr, ca = ref["cum_ref"], ref["cum_alt"]
        if [h for h in T if h not in cum] or [h for h in cum if h not in cr]:
            bad({"clause": "cumulative-need-equals-reference", "what": "hours"}, hours=hours, expected=T,
                windows=windows_class(cfg))
        else:
            for h in hours:
                ncmp += 1
                if not near(cum[h], cr[h], tol):
                    trig = "expiries-truncated-at-last-write-hour" if all(near(cum[x], ca[x], tol) for x in hours) \
                        else "other"
                    bad({"clause": "cumulative-need-equals-reference", "what": "value", "trigger": trig},
                        hour=h, library_kB=cum[h], reference_kB=cr[h],
                        library=[cum[x] for x in hours], reference=[cr[x] for x in hours], hours=hours,
                        windows=windows_class(cfg))
                    break
            if min(cum.values()) < -tol:
                bad({"clause": "cumulative-need-negative"}, min_kB=min(cum.values()))
        missing = [h for h in cum if h not in snb]
        if missing:
            bad({"clause": "storage-instances", "what": "no-instance-count-at-an-hour-with-need"},
                hours_of_need=hours, hours_of_instances=sorted(snb, key=float))
        else:
            for h in hours:
                ncmp += 1
                if not (snb[h] * cap >= cum[h] - max(tol, RTOL * abs(cum[h]))):
                    bad({"clause": "storage-instances", "what": "capacity-below-cumulative-need"}, hour=h, nb=snb[h],
                        capacity_kB=cap, need_kB=cum[h])
                    break
                if h in cr and not (snb[h] * cap >= cr[h] - max(tol, RTOL * abs(cr[h]))):
                    bad({"clause": "storage-instances", "what": "capacity-below-reference-need"}, hour=h, nb=snb[h],
                        capacity_kB=cap, need_kB=cr[h])
                    break
                if snb[h] != int(snb[h]) or snb[h] < 0:
                    bad({"clause": "storage-instances", "what": "not-a-whole-number"}, hour=h, nb=snb[h])
                    break
            if ref["fix_st"] is not None and any(v != ref["fix_st"] for v in snb.values()):
                bad({"clause": "fixed-count-not-honoured", "what": "storage"}, nb=[snb[h] for h in sorted(snb, key=float)],
                    fixed=ref["fix_st"])
            dig.append([round(snb[h], 6) for h in sorted(snb, key=float)])
        # active instances
        flagged = False
        for h in sorted(act, key=float):
            ncmp += 1
            a = act[h]
            if h not in snb:
                bad({"clause": "active-vs-provisioned", "what": "active-at-an-hour-without-provisioned-count"},
                    hours_active=sorted(act, key=float), hours_provisioned=sorted(snb, key=float))
                break
            if not (a <= snb[h] + RTOL * max(1.0, abs(snb[h]))) or not (a >= -1e-15):
                bad({"clause": "active-vs-provisioned", "what": "active-exceeds-provisioned" if a > snb[h]
                     else "active-negative-or-undefined"}, hour=h, active=a, provisioned=snb[h])
                break
            fully = h in ref["writes"] and (not ref["dels"] or h in ref["dels"]) \
                and ref["exp_ref"].get(h, 0.0) == ref["exp_alt"].get(h, 0.0)
            if fully and not flagged:
                want = min((max(abs(ref["writes"][h]), abs(ref["dels"].get(h, 0.0))) + abs(ref["exp_ref"].get(h, 0.0)))
                           / cap, snb[h])
                if not near(a, want, tol / cap):
                    flagged = True
                    bad({"clause": "active-instances-by-timestamp"}, hour=h, active=a, by_timestamp=want,
                        windows=windows_class(cfg))
        dig.append([round(act[h], 9) for h in sorted(act, key=float)])
    cnt["hourly_comparisons"] = ncmp
    return "built", viol, cnt, dig


def run_task(task):
    prepare()
    res = {"violations": [], "counters": {}, "outcomes": [], "digests": []}
    for cfg in task["cfgs"]:
        oc, viol, cnt, dig = check_model(cfg)
        res["outcomes"].append(oc)
        res["violations"] += viol
        for k, v in cnt.items():
            res["counters"][k] = res["counters"].get(k, 0) + v
        res["digests"].append(json.dumps(dig, sort_keys=True, default=str))
    res["outcome"] = ",".join(sorted(set(res["outcomes"])))
    return res


# =========================================================================================== enumeration
def words(maxlen, alphabet=(0, 1, 3, 7)):
    out = []
    for n in range(1, maxlen + 1):
        level = [[]]
        for _ in range(n):
            level = [x + [a] for x in level for a in alphabet]
        out += level
    return out


def server_combos(full=True):
    """(stype, cap, fix_sv): every server type x capacity class, every fixed count for on-premise, and a fixed
    count given to the two types that do not allow one."""
    out = []
    for cap in CAPS:
        for fx in ("none", "peak-1", "peak", "larger"):
            out.append(("on-premise", cap, fx))
        out.append(("autoscaling", cap, "none"))
        out.append(("serverless", cap, "none"))
    out.append(("autoscaling", "ample", "peak"))
    out.append(("serverless", "ram-limit", "larger"))
    return out


BUILDING_SERVERS = [("autoscaling", "ample", "none"), ("on-premise", "ram-limit", "none"), ("serverless", "cpu-limit", "none"),
                    ("on-premise", "cpu-exact", "peak"), ("autoscaling", "float-limit", "none"),
                    ("on-premise", "ample", "larger"), ("serverless", "ram-limit", "none"),
                    ("autoscaling", "cpu-exact", "none"), ("on-premise", "float-limit", "larger")]
MIX_SERVERS = [("on-premise", "ample", "none"), ("on-premise", "ram-limit", "peak-1"), ("on-premise", "ram-limit", "peak"),
               ("on-premise", "cpu-exact", "larger"), ("on-premise", "cpu-limit", "none"), ("autoscaling", "ram-limit", "none"),
               ("autoscaling", "cpu-limit", "none"), ("serverless", "ram-limit", "none"), ("serverless", "cpu-exact", "none"),
               ("autoscaling", "float-limit", "none"), ("on-premise", "float-limit", "peak"), ("autoscaling", "ample", "none")]
MIXES = ["same-step", "equal", "overlap", "inside", "adjacent", "disjoint", "before"]


def cfg_of(load, amount="100kB", stype="autoscaling", cap="ample", fix_sv="none", fix_st="none", dur="1h", rep=1,
           base="0", scap="1TB", mix="w", damt="small", wsplit=0):
    c = {"load": list(load), "amount": amount, "stype": stype, "cap": cap, "fix_sv": fix_sv, "fix_st": fix_st,
         "dur": dur, "rep": rep, "base": base, "scap": scap, "mix": mix, "damt": damt}
    if wsplit:
        c["wsplit"] = wsplit
    return c


def enumerate_space(tier):
    """The enumerated space = union of complete sub-products (slices); every value of every dimension of DESIGN §5
    C04 occurs in both tiers. Returns (list of cfgs, description of the slices)."""
    thorough = tier == "thorough"
    amounts, durs, bases = list(AMOUNTS), list(DURATIONS), list(BASES)
    w1, w2, w3, w4 = words(1), words(2), words(3), words(4)
    len4 = w4[len(w3):]
    cfgs, slices = [], []

    def add_slice(name, items, bounds):
        seen = 0
        for c in items:
            if valid_cfg(c):
                cfgs.append(c)
                seen += 1
        slices.append({"slice": name, "models": seen, "product": bounds})

    # A — float cancellation / deletion-free storage: loads x amount x duration x replication x base
    loadsA = (w4 + [LONG_LOAD]) if thorough else len4
    items = []
    i = 0
    for ld in loadsA:
        for a in amounts:
            for d in (durs if thorough else ["1h", "2h"]):
                for rep in ((1, 3) if thorough else (1,)):
                    for b in (bases if thorough else ["0"]):
                        s = BUILDING_SERVERS[i % len(BUILDING_SERVERS)]
                        i += 1
                        items.append(cfg_of(ld, amount=a, dur=d, rep=rep, base=b, stype=s[0], cap=s[1], fix_sv=s[2]))
    add_slice("A deletion-free storage", items,
              f"loads({len(loadsA)}) x amounts(3) x durations({3 if thorough else 2}) x replication({2 if thorough else 1})"
              f" x base({3 if thorough else 1}); server parameters cycled over {len(BUILDING_SERVERS)} building combos")
    # A' (quick only): the values of duration / replication / base left out of A, on the short loads
    if not thorough:
        items = []
        i = 0
        for ld in w1 + [[1, 3], [7, 0], [3, 3], [0, 1], LONG_LOAD]:
            for a in amounts:
                for d in durs:
                    for rep in (1, 3):
                        for b in bases:
                            s = BUILDING_SERVERS[i % len(BUILDING_SERVERS)]
                            i += 1
                            items.append(cfg_of(ld, amount=a, dur=d, rep=rep, base=b, stype=s[0], cap=s[1], fix_sv=s[2]))
        add_slice("A' deletion-free storage, short loads", items,
                  "loads(4 of length 1, 4 of length 2, long) x amounts(3) x durations(3) x replication(2) x base(3)")
    # B — server sizing: loads x (type x capacity class x fixed count) x {writer only, writer+deleter equal windows}
    loadsB = (w3 + [LONG_LOAD]) if thorough else (w1 + [[1, 3], [7, 0], [1, 3, 0, 7], LONG_LOAD])
    items = []
    i = 0
    for ld in loadsB:
        for (stype, cap, fx) in server_combos():
            for mix in (("w", "equal") if thorough else ("w",)):
                i += 1
                items.append(cfg_of(ld, stype=stype, cap=cap, fix_sv=fx, mix=mix, amount=amounts[i % 3],
                                    dur=durs[i % 3], base="small" if mix == "w" else "large"))
    add_slice("B server sizing", items,
              f"loads({len(loadsB)}) x server combos({len(server_combos())}: 3 types x 8 capacity classes, 4 fixed counts for "
              f"on-premise, 2 fixed counts on types that refuse one) x mixes({2 if thorough else 1})")
    # B' — server sizing with two jobs over different windows
    loadsB2 = (w3 + [LONG_LOAD]) if thorough else (w1 + [[1, 3], [0, 7, 1], [1, 3, 0, 7]])
    items = []
    for ld in loadsB2:
        for (stype, cap, fx) in MIX_SERVERS:
            for mix in (("equal", "overlap", "disjoint", "before") if thorough else ("equal", "overlap", "disjoint")):
                items.append(cfg_of(ld, stype=stype, cap=cap, fix_sv=fx, mix=mix, base="large", dur="2h"))
    add_slice("B' server sizing, two jobs, windows equal/overlapping/disjoint", items,
              f"loads({len(loadsB2)}) x server combos({len(MIX_SERVERS)}) x windows({4 if thorough else 3})")
    # C — writer + deleter: loads x window relation x deleted amount x duration x replication x base
    loadsC = (w2 + [[1, 3, 0], [7, 0, 1], [0, 0, 3], [1, 3, 0, 7], [7, 1, 0, 0], [3, 3, 3, 3], [0, 1, 0, 1], LONG_LOAD]) \
        if thorough else [[3], [1, 7], [1, 3, 0, 7]]
    items = []
    i = 0
    for ld in loadsC:
        for mix in MIXES:
            for damt in ("small", "same", "big"):
                for d in durs:
                    for rep in (1, 3):
                        for b in bases:
                            i += 1
                            s = BUILDING_SERVERS[i % len(BUILDING_SERVERS)]
                            items.append(cfg_of(ld, amount=amounts[i % 3], dur=d, rep=rep, base=b, mix=mix, damt=damt,
                                                stype=s[0], cap=s[1], fix_sv=s[2],
                                                scap="1TB" if i % 2 else "2xamount"))
    add_slice("C writer + deleter", items,
              f"loads({len(loadsC)}) x window relations(7: same step, equal, overlap, inside, adjacent, disjoint, before) x "
              f"deleted amount(3) x durations(3) x replication(2) x base(3); amount and storage capacity cycled")
    # D — fixed storage instance counts: loads x fixed count x capacity class x base x replication x mix
    loadsD = (w3 + [LONG_LOAD]) if thorough else [[1], [7], [3, 0], [0, 7, 1], [1, 3, 0, 7], [0, 0]]
    items = []
    i = 0
    for ld in loadsD:
        for fx in ("none", "peak-1", "peak", "larger"):
            for scap in ("1TB", "1GB", "2xamount"):
                for b in bases:
                    for rep in (1, 3):
                        for mix in (("w", "equal") if thorough else ("w",)):
                            i += 1
                            s = BUILDING_SERVERS[i % len(BUILDING_SERVERS)]
                            items.append(cfg_of(ld, amount=amounts[i % 3], dur=durs[(i // 3) % 3], rep=rep, base=b,
                                                scap=scap, fix_st=fx, mix=mix, damt="small",
                                                stype=s[0], cap=s[1], fix_sv=s[2]))
    add_slice("D fixed storage counts", items,
              f"loads({len(loadsD)}) x fixed storage count(4) x storage capacity(3: 1 TB, 1 GB, twice the per-request "
              f"amount) x base(3) x replication(2) x mixes({2 if thorough else 1}); amount and duration cycled")
    # E — the writing job is reached through two usage patterns with disjoint windows: the second one starts after a
    # gap of 1 hour (shorter than or equal to every storage duration) or 4 hours (longer than the 1 h and 2 h durations),
    # so that expiries fall inside the gap / inside the second window and the index of the need has a hole
    loadsE = (w2 + [[1, 3, 0], [7, 0, 1], [1, 3, 0, 7], [3, 3, 3, 3], LONG_LOAD]) if thorough \
        else [[3], [1, 7], [7, 0, 1], [1, 3, 0, 7]]
    items = []
    i = 0
    for ld in loadsE:
        for gap in (1, 4):
            for a in amounts:
                for d in durs:
                    for rep in (1, 3):
                        for b in (bases if thorough else ["0", "small"]):
                            for mix in (("w", "equal", "disjoint") if thorough else ("w", "disjoint")):
                                i += 1
                                s = BUILDING_SERVERS[i % len(BUILDING_SERVERS)]
                                items.append(cfg_of(ld, amount=a, dur=d, rep=rep, base=b, mix=mix, damt="small",
                                                    wsplit=gap, stype=s[0], cap=s[1], fix_sv=s[2],
                                                    scap="1TB" if i % 2 else "2xamount"))
    add_slice("E writer reached through two usage patterns with disjoint windows", items,
              f"loads({len(loadsE)}) x gap before the second window(2: 1 h, 4 h) x amounts(3) x durations(3) x "
              f"replication(2) x base({3 if thorough else 2}) x mixes({3 if thorough else 2})")
    # F — the fixed counts of B and D assigned on the live model instead of at construction
    items = []
    i = 0
    for ld in (loadsD if thorough else [[1], [3, 0], [0, 7, 1], [1, 3, 0, 7]]):
        for fx in ("peak-1", "peak", "larger"):
            for scap in ("1TB", "1GB", "2xamount"):
                for b in bases:
                    i += 1
                    s = BUILDING_SERVERS[i % len(BUILDING_SERVERS)]
                    c = cfg_of(ld, amount=amounts[i % 3], dur=durs[(i // 3) % 3], rep=1 + 2 * (i % 2), base=b, scap=scap,
                               fix_st=fx, stype=s[0], cap=s[1], fix_sv="none")
                    c["live_fix"] = 1
                    items.append(c)
    for ld in (loadsB if thorough else [[1], [7, 0], [1, 3, 0, 7]]):
        for (stype, cap, fx) in server_combos():
            if fx != "none":
                i += 1
                c = cfg_of(ld, stype=stype, cap=cap, fix_sv=fx, amount=amounts[i % 3], dur=durs[i % 3], base="small")
                c["live_fix"] = 1
                items.append(c)
    add_slice("F fixed counts assigned on the live model", items,
              "storage: loads x fixed count(3) x storage capacity(3) x base(3), replication / amount / duration cycled; "
              "server: loads x every (type, capacity class, fixed count) combination with a fixed count")
    # de-duplicate (slices overlap on a few points)
    seen, out = set(), []
    for c in cfgs:
        k = json.dumps(c, sort_keys=True)
        if k not in seen:
            seen.add(k)
            out.append(c)
    return out, slices


DIMENSIONS = {"amount": list(AMOUNTS), "stype": ["autoscaling", "on-premise", "serverless"], "cap": list(CAPS),
              "fix_sv": ["none", "peak-1", "peak", "larger"], "fix_st": ["none", "peak-1", "peak", "larger"],
              "dur": list(DURATIONS), "rep": [1, 3], "base": list(BASES), "scap": ["1TB", "1GB", "2xamount"],
              "mix": ["w"] + MIXES, "damt": ["small", "same", "big"], "wsplit": [0, 1, 4]}


def main(tier):
    prepare()
    run = report.Run(PROP, tier)
    cfgs, slices = enumerate_space(tier)
    # every value of every dimension must be present (otherwise the slice definition is broken: harness error)
    for dim, vals in DIMENSIONS.items():
        present = {json.dumps(c.get(dim, 0)) for c in cfgs}
        for v in vals:
            if json.dumps(v) not in present:
                print(f"HARNESS-ERROR value {v!r} of dimension {dim} is not enumerated in tier {tier}")
                return 2
    group = 20
    tasks = [{"cfgs": cfgs[i:i + group], "_timeout": 600} for i in range(0, len(cfgs), group)]
    engine.start(run_task)
    results = engine.pmap(tasks)
    timeouts = engine.check_results(results, run)
    if timeouts:
        # a group that ran out of time (loaded machine) is re-run model by model; only a single model that does not
        # terminate is reported
        keep = [(t, r) for t, r in zip(tasks, results) if not r.get("_timeout")]
        singles = [{"cfgs": [c], "_timeout": 300} for t, r in zip(tasks, results) if r.get("_timeout") for c in t["cfgs"]]
        run.count("groups_rerun_after_timeout", len(timeouts))
        res2 = engine.pmap(singles)
        timeouts = engine.check_results(res2, run)
        tasks = [t for t, _ in keep] + singles
        results = [r for _, r in keep] + res2
    engine.stop()
    outcomes, digests, samples = {}, set(), []
    for t, r in zip(tasks, results):
        if r.get("_timeout"):
            run.violation({"clause": "timeout"}, {"task": {"cfgs": t["cfgs"]}, "detail": "build did not terminate",
                                                  "size": 10 ** 6})
            continue
        for oc in r["outcomes"]:
            outcomes[oc] = outcomes.get(oc, 0) + 1
        digests.update(r["digests"])
        for v in r["violations"]:
            run.violation(v["sig"], {"task": {"cfgs": [v["cfg"]]}, "detail": v["detail"], "size": v["size"]})
        for k, n in r["counters"].items():
            run.count(k, n)
    # samples: a few actual cases with their observed result
    want = {}
    for t, r in zip(tasks, results):
        if r.get("_timeout"):
            continue
        for c, oc in zip(t["cfgs"], r["outcomes"]):
            k = (oc, c["mix"] == "w")
            if k not in want and len(want) < 8:
                want[k] = {"cfg": c, "outcome": oc}
    samples = list(want.values())
    n_exec = sum(v for k, v in outcomes.items() if not k.startswith("skipped"))
    cov = {"states": len(cfgs), "transitions": n_exec, "traces_validated_against_impl": n_exec,
           "samples": samples, "exhaustive": not timeouts, "slices": slices, "outcomes": outcomes,
           "distinct_outcomes": len(digests),
           "bounds": "UTC models with one server, one storage, a writing job and at most one deleting job; loads = words "
                     "over {0,1,3,7} of length <= 4 plus one 26-hour load; per-request amounts 100 kB / 0.3 MB / 33.3 kB; "
                     "the space is the union of the complete sub-products listed in 'slices'",
           "dimensions": DIMENSIONS}
    return run.finish(cov, assumptions=[
        "requests last exactly one hour and sit in the first journey step, so that job load per hour = journey starts "
        "(conservation upstream of the job is C03's business)",
        "deletions are replicated like writes (the library's reading); expiries are due storage-duration hours after "
        "the write if that hour is not after the last hour of the modelled period of the storage (union of the windows "
        "of all its jobs)",
        "tolerance rel 1e-9; the ceiling of a value within 1e-9 of an integer may go either way; a model whose "
        "reference verdict depends on that is accepted either way (counted as boundary case)",
        "available capacity exactly zero (base consumption == capacity x utilisation): a ValueError refusal or an "
        "infinite count at hours with need are accepted; an undefined (NaN) count or a crash (non-ValueError) is not",
        "active instances are compared with the by-timestamp formula only at hours where every operand is defined"])


if __name__ == "__main__":
    try:
        sys.exit(main(sys.argv[1] if len(sys.argv) > 1 else "quick"))
    except engine.CrashError as e:
        print("HARNESS-ERROR", e)
        sys.exit(2)
