"""C09 — explainable quantities obey unit-safe arithmetic.

Bounded exhaustive enumeration, executed on the real classes of
``efootprint/abstract_modeling_classes/explainable_objects.py``:

* every ordered pair (a, b) of a finite operand alphabet (scalars in 11 units x magnitudes {0, 1, 2.5, -3}, hourly
  series with same / other units and dimensions, lengths 1-4, same / shifted / disjoint / nested indexes, naive and
  UTC-aware, and the empty value) x every binary operator (+ - * /, the four reflected dunders called directly,
  builtin ``sum([a, b])``, ``np_compared_with`` max / min, ``compare_with_and_return_max``,
  ``return_shifted_hourly_quantities``) plus the laws a+b == b+a, a*b == b*a and sum(a+b) == sum(a)+sum(b);
* every operand x every unary helper (sum, mean, max, abs, ceil, negation, ``round(x, n)``, ``x.round(n)``, copy,
  ``copy.copy``, ``to(unit)`` for every unit of the alphabet, ``convert_to_utc`` for four zones, ``sum([a])``).

Every evaluation builds fresh operand objects.  The reference model is written here and kept boring: scalar
pairs are evaluated as the same expression on bare pint quantities (value and dimension, or an exception, which
the library must then raise too); hourly operands are ``dict[hour -> float]`` in SI base units taken from a
hard-coded factor table (checked against the library's registry by the "registry" task), with missing hours = 0
for +, * and element-wise max/min.  After every evaluation (also a raising one) the operands' physical values
are compared with the values they were built from.

Where the statement gives no reference result (subtraction / division on unequal indexes, division by a zero,
mixed aware / naive operands, scalar +/- hourly, x - empty ...) the evaluation is *free*: the library may raise
or return anything, only "operands keep their value" and "incompatible dimensions never yield a number" are
demanded (and for a mixed aware/naive sum that returns, that totals add up).  Documented refusals of a defined
combination (e.g. hourly / hourly -> NotImplementedError, scalar + hourly -> ValueError) are counted, not flagged.
"""
import copy as _copy
import datetime as _dt
import hashlib
import json
import math
import sys

from efmc import boot, engine, report

PROP = "C09"
REL = 1e-9

# ------------------------------------------------------------------------------------------------ unit table
M, L, T, C = "mass", "length", "time", "cpu_core"
POWER = ((L, 2.0), (M, 1.0), (T, -3.0))
CI = ((L, -2.0), (T, 2.0))
TABLE = {                       # unit -> (factor to SI base units, dimension vector); bit = 1 (pint: dimensionless)
    "GB": (8e9, ()), "MB": (8e6, ()), "W": (1.0, POWER), "kW": (1e3, POWER), "s": (1.0, ((T, 1.0),)),
    "hour": (3600.0, ((T, 1.0),)), "g/kWh": (1e-3 / 3.6e6, CI), "kg/MWh": (1.0 / 3.6e9, CI),
    "dimensionless": (1.0, ()), "percent": (0.01, ()), "cpu_core": (1.0, ((C, 1.0),)),
}
EXTRA_TABLE = {                 # only used by the registry task (custom_units.txt and prefixes the library relies on)
    "year": (365.25 * 86400.0, ((T, 1.0),)), "gpu": (1.0, (("gpu", 1.0),)), "TB": (8e12, ()), "kB": (8e3, ()),
    "B": (8.0, ()), "kWh": (3.6e6, ((L, 2.0), (M, 1.0), (T, -2.0))), "day": (86400.0, ((T, 1.0),)),
    "min": (60.0, ((T, 1.0),)), "kg": (1.0, ((M, 1.0),)), "g": (1e-3, ((M, 1.0),)),
}
UNITS = list(TABLE)
MAGS = [0.0, 1.0, 2.5, -3.0]
PAT = [1.0, 2.5, -3.0, 0.0]
ZONES = ["UTC", "Europe/Paris", "America/New_York", "Asia/Kolkata"]
ROUND_LEVELS = [0, 1]


def dim_mul(d1, d2, sign=1.0):
    d = dict(d1)
    for k, e in d2:
        d[k] = d.get(k, 0.0) + sign * e
    return tuple(sorted((k, e) for k, e in d.items() if e != 0))


# ------------------------------------------------------------------------------------------------ alphabets
def q(mag, unit):
    return ["q", float(mag), unit]


def h(unit, n, off, tz, rot):
    return ["h", [PAT[(rot + i) % 4] for i in range(n)], unit, off, tz]


E = ["e"]


def alphabet(tier):
    if tier == "quick":
        scal = [q(1, "GB"), q(-3, "GB"), q(2.5, "MB"), q(0, "MB"), q(2.5, "W"), q(1, "kW"), q(1, "s"),
                q(2.5, "hour"), q(-3, "hour"), q(1, "g/kWh"), q(2.5, "kg/MWh"), q(2.5, "dimensionless"),
                q(0, "dimensionless"), q(1, "percent"), q(1, "cpu_core"), q(-3, "cpu_core")]
        hour = [h("GB", 3, 0, None, 0), h("MB", 3, 0, None, 1), h("W", 3, 0, None, 0), h("GB", 3, 1, None, 2),
                h("MB", 3, 1, None, 0), h("GB", 2, 5, None, 1), h("GB", 1, 1, None, 1), h("GB", 4, 0, None, 3),
                h("kW", 4, 0, None, 0), h("dimensionless", 3, 0, None, 1), h("cpu_core", 2, 1, None, 0),
                h("GB", 3, 0, "UTC", 0), h("MB", 3, 1, "UTC", 1), h("W", 2, 5, "UTC", 0)]
    else:
        scal = [q(m, un) for un in UNITS for m in MAGS]
        hour, k = [], 0
        for tz in (None, "UTC"):
            for n, off in ((3, 0), (3, 1), (2, 5), (1, 1), (4, 0)):
                for un in ("GB", "MB", "W"):
                    hour.append(h(un, n, off, tz, k % 4))
                    k += 1
        hour += [h("kW", 3, 0, None, 0), h("kW", 4, 0, None, 1), h("dimensionless", 3, 0, None, 1),
                 h("percent", 3, 1, None, 0), h("cpu_core", 3, 0, None, 0), h("cpu_core", 2, 1, None, 2),
                 h("g/kWh", 3, 0, None, 0), h("kg/MWh", 3, 0, None, 1), h("hour", 3, 0, None, 0),
                 h("s", 2, 5, None, 0)]
    return scal + hour + [E]


# ------------------------------------------------------------------------------------------------ library side
_lib = {}


def prepare():
    boot.core()
    import numpy as np
    import pandas as pd
    import pint
    import pint_pandas
    import pytz
    from efootprint.constants.units import u
    from efootprint.abstract_modeling_classes import explainable_objects as eo
    from efootprint.abstract_modeling_classes.explainable_object_base_class import ExplainableObject
    _lib.update(np=np, pd=pd, pint=pint, pp=pint_pandas, pytz=pytz, u=u, eo=eo, EO=ExplainableObject,
                base=pd.Timestamp("2025-01-01 00:00:00"))


def mk(spec):
    """A fresh library object for an operand spec."""
    eo, u, pd, np, pp = _lib["eo"], _lib["u"], _lib["pd"], _lib["np"], _lib["pp"]
    if spec[0] == "e":
        return eo.EmptyExplainableObject()
    if spec[0] == "q":
        return eo.ExplainableQuantity(u.Quantity(spec[1], spec[2]), "q")
    _, vals, unit, off, tz = spec
    idx = pd.date_range(_lib["base"] + pd.Timedelta(hours=off), periods=len(vals), freq="h", tz=tz)
    df = pd.DataFrame({"value": pp.PintArray(np.array(vals, dtype=float), dtype=u.Unit(unit))}, index=idx)
    return eo.ExplainableHourlyQuantities(df, "h")


def pint_dims(quantity_or_unit):
    return tuple(sorted((k.strip("[]"), float(e)) for k, e in quantity_or_unit.dimensionality.items() if e != 0))


def canon(x):
    """Physical value of a library result: ('e',) | ('q', dims, base value) | ('h', dims, {hour: base value}, tz)."""
    eo, pd, np, pint = _lib["eo"], _lib["pd"], _lib["np"], _lib["pint"]
    if isinstance(x, eo.EmptyExplainableObject):
        return ("e",)
    if isinstance(x, eo.ExplainableQuantity):
        v = x.value
        if not isinstance(v, pint.Quantity):
            return ("other", f"ExplainableQuantity holding {type(v).__name__}")
        b = v.to_base_units()
        mag = b.magnitude
        if isinstance(mag, np.ndarray) and mag.ndim > 0:
            return ("other", f"ExplainableQuantity holding an array of shape {mag.shape}")
        return ("q", pint_dims(v), float(mag))
    if isinstance(x, eo.ExplainableHourlyQuantities):
        df = x.value
        arr = df["value"].values
        qty = arr.quantity.to_base_units()
        mags = np.asarray(qty.magnitude, dtype=float)
        idx = df.index
        tz = "naive" if idx.tz is None else ("utc" if str(idx.tz) == "UTC" else f"tz:{idx.tz}")
        if idx.tz is not None:
            idx = idx.tz_convert("UTC").tz_localize(None)
        hours = [float(td / pd.Timedelta(hours=1)) for td in (idx - _lib["base"])]
        d = {}
        for k, m in zip(hours, mags):
            if k in d:
                return ("other", "hourly result with a duplicated timestamp")
            d[k] = float(m)
        return ("h", pint_dims(x.unit), d, tz)
    return ("other", f"{type(x).__name__}:{x!r}"[:80])


# ------------------------------------------------------------------------------------------------ reference side
def rc(spec):
    """Reference value of an operand spec (no library, no pint: the factor table)."""
    if spec[0] == "e":
        return ("e",)
    if spec[0] == "q":
        f, d = TABLE[spec[2]]
        return ("q", d, spec[1] * f)
    _, vals, unit, off, tz = spec
    f, d = TABLE[unit]
    return ("h", d, {float(off + i): v * f for i, v in enumerate(vals)}, "naive" if tz is None else "utc")


class Out:
    """Reference prediction: value (canon) | raise | free | na."""
    def __init__(self, kind, canon=None, why="", may_refuse=False, scale=0.0, total=None, unit=None):
        self.kind, self.canon, self.why, self.may_refuse = kind, canon, why, may_refuse
        self.scale, self.total, self.unit = scale, total, unit


def VALUE(c, scale=0.0, may_refuse=False, unit=None):
    return Out("value", c, scale=scale, may_refuse=may_refuse, unit=unit)


def RAISE(why):
    return Out("raise", why=why)


def FREE(why, total=None, scale=0.0):
    return Out("free", why=why, total=total, scale=scale)


NA = Out("na")


def kind_name(c):
    return {"e": "empty", "q": "scalar", "h": "hourly"}.get(c[0], c[0])


def mag_scale(c):
    if c[0] == "q":
        return abs(c[2])
    if c[0] == "h":
        return max([abs(v) for v in c[2].values()] or [0.0])
    return 0.0


def pint_pair(sa, sb, fn):
    """The same expression on bare pint quantities."""
    u, pint = _lib["u"], _lib["pint"]
    A, B = u.Quantity(sa[1], sa[2]), u.Quantity(sb[1], sb[2])
    try:
        r = fn(A, B)
    except pint.DimensionalityError:
        return RAISE("dimension")
    except ZeroDivisionError:
        return RAISE("zero-division")
    return VALUE(("q", pint_dims(r), float(r.to_base_units().magnitude)),
                 scale=max(abs(rc(sa)[2]), abs(rc(sb)[2])))


def neg(c):
    if c[0] == "q":
        return ("q", c[1], -c[2])
    if c[0] == "h":
        return ("h", c[1], {k: -v for k, v in c[2].items()}, c[3])
    return c


def ref_addsub(sa, sb, sign):
    A, B = rc(sa), rc(sb)
    ka, kb = A[0], B[0]
    sc = max(mag_scale(A), mag_scale(B))
    if ka == "e" and kb == "e":
        return VALUE(("e",))
    if kb == "e":
        return VALUE(A, sc)
    if ka == "e":
        return VALUE(B, sc) if sign > 0 else VALUE(neg(B), sc, may_refuse=True)
    if ka == "q" and kb == "q":
        return pint_pair(sa, sb, (lambda x, y: x + y) if sign > 0 else (lambda x, y: x - y))
    if A[1] != B[1]:
        return RAISE("dimension")
    if ka == "h" and kb == "h":
        if A[3] != B[3]:
            return FREE("mixed-tz", total=(sum(A[2].values()) + sum(B[2].values())) if sign > 0 else None,
                        scale=sum(abs(v) for v in list(A[2].values()) + list(B[2].values())))
        if sign > 0:
            keys = sorted(set(A[2]) | set(B[2]))
            return VALUE(("h", A[1], {k: A[2].get(k, 0.0) + B[2].get(k, 0.0) for k in keys}, A[3]), sc)
        if set(A[2]) != set(B[2]):
            return FREE("unequal-index")
        return VALUE(("h", A[1], {k: A[2][k] - B[2][k] for k in A[2]}, A[3]), sc)
    # scalar with hourly: broadcast; the library documents a refusal
    if ka == "h":
        return VALUE(("h", A[1], {k: v + sign * B[2] for k, v in A[2].items()}, A[3]), sc, may_refuse=True)
    return VALUE(("h", A[1], {k: A[2] + sign * v for k, v in B[2].items()}, B[3]), sc, may_refuse=True)


def ref_mul(sa, sb):
    A, B = rc(sa), rc(sb)
    ka, kb = A[0], B[0]
    if ka == "e" or kb == "e":
        return VALUE(("e",))
    if ka == "q" and kb == "q":
        r = pint_pair(sa, sb, lambda x, y: x * y)
        r.scale = 0.0
        return r
    d = dim_mul(A[1], B[1])
    if ka == "h" and kb == "h":
        if A[3] != B[3]:
            return FREE("mixed-tz")
        keys = sorted(set(A[2]) | set(B[2]))
        return VALUE(("h", d, {k: A[2].get(k, 0.0) * B[2].get(k, 0.0) for k in keys}, A[3]))
    if ka == "h":
        return VALUE(("h", d, {k: v * B[2] for k, v in A[2].items()}, A[3]))
    return VALUE(("h", d, {k: A[2] * v for k, v in B[2].items()}, B[3]))


def ref_div(sa, sb):
    A, B = rc(sa), rc(sb)
    ka, kb = A[0], B[0]
    if ka == "e" or kb == "e":
        return FREE("division-with-empty")
    if ka == "q" and kb == "q":
        r = pint_pair(sa, sb, lambda x, y: x / y)
        r.scale = 0.0
        return r
    d = dim_mul(A[1], B[1], -1.0)
    if ka == "h" and kb == "q":
        if B[2] == 0:
            return FREE("zero-divisor")
        return VALUE(("h", d, {k: v / B[2] for k, v in A[2].items()}, A[3]))
    if ka == "q" and kb == "h":
        if any(v == 0 for v in B[2].values()):
            return FREE("zero-divisor")
        return VALUE(("h", d, {k: A[2] / v for k, v in B[2].items()}, B[3]))
    if A[3] != B[3]:
        return FREE("mixed-tz")
    if set(A[2]) != set(B[2]):
        return FREE("unequal-index")
    if any(v == 0 for v in B[2].values()):
        return FREE("zero-divisor")
    return VALUE(("h", d, {k: A[2][k] / B[2][k] for k in A[2]}, A[3]), may_refuse=True)


def ref_npc(sa, sb, comparator):
    A, B = rc(sa), rc(sb)
    ka, kb = A[0], B[0]
    f = max if comparator == "max" else min
    if ka == "q":
        return NA
    if kb == "q":
        return FREE("compared-with-scalar")
    if ka == "e" and kb == "e":
        return VALUE(("e",))
    if kb == "e":
        return VALUE(("h", A[1], {k: f(v, 0.0) for k, v in A[2].items()}, A[3]), mag_scale(A))
    if ka == "e":
        return VALUE(("h", B[1], {k: f(0.0, v) for k, v in B[2].items()}, B[3]), mag_scale(B))
    if A[1] != B[1]:
        return RAISE("dimension")
    if A[3] != B[3]:
        return FREE("mixed-tz")
    keys = sorted(set(A[2]) | set(B[2]))
    return VALUE(("h", A[1], {k: f(A[2].get(k, 0.0), B[2].get(k, 0.0)) for k in keys}, A[3]),
                 max(mag_scale(A), mag_scale(B)))


def ref_cmpmax(sa, sb):
    if sa[0] != "q":
        return NA
    if sb[0] != "q":
        return FREE("compared-with-non-scalar")
    return pint_pair(sa, sb, lambda x, y: x if x >= y else y)


def ref_shift(sa, sb):
    if sa[0] != "h":
        return NA
    if sb[0] != "q":
        return FREE("shift-by-non-scalar")
    A, B = rc(sa), rc(sb)
    if B[1] != ((T, 1.0),):
        return RAISE("dimension")
    n = math.floor(B[2] / 3600.0)
    return VALUE(("h", A[1], {k + n: v for k, v in A[2].items()}, A[3]), mag_scale(A))


# op -> (library callable, reference, dunder that must exist on type(a) else n/a, method name for the signature)
BIN = {
    "add": (lambda a, b: a + b, lambda sa, sb: ref_addsub(sa, sb, +1), None, "__add__"),
    "sub": (lambda a, b: a - b, lambda sa, sb: ref_addsub(sa, sb, -1), None, "__sub__"),
    "mul": (lambda a, b: a * b, ref_mul, None, "__mul__"),
    "div": (lambda a, b: a / b, ref_div, None, "__truediv__"),
    "radd": (lambda a, b: a.__radd__(b), lambda sa, sb: ref_addsub(sb, sa, +1), "__radd__", "__radd__"),
    "rsub": (lambda a, b: a.__rsub__(b), lambda sa, sb: ref_addsub(sb, sa, -1), "__rsub__", "__rsub__"),
    "rmul": (lambda a, b: a.__rmul__(b), lambda sa, sb: ref_mul(sb, sa), "__rmul__", "__rmul__"),
    "rtruediv": (lambda a, b: a.__rtruediv__(b), lambda sa, sb: ref_div(sb, sa), "__rtruediv__", "__rtruediv__"),
    "sum2": (lambda a, b: sum([a, b]), lambda sa, sb: ref_addsub(sa, sb, +1), None, "builtin-sum"),
    "npmax": (lambda a, b: a.np_compared_with(b, "max"), lambda sa, sb: ref_npc(sa, sb, "max"),
              "np_compared_with", "np_compared_with"),
    "npmin": (lambda a, b: a.np_compared_with(b, "min"), lambda sa, sb: ref_npc(sa, sb, "min"),
              "np_compared_with", "np_compared_with"),
    "cmpmax": (lambda a, b: a.compare_with_and_return_max(b), ref_cmpmax,
               "compare_with_and_return_max", "compare_with_and_return_max"),
    "shift": (lambda a, b: a.return_shifted_hourly_quantities(b), ref_shift,
              "return_shifted_hourly_quantities", "return_shifted_hourly_quantities"),
}
LAWS = ["comm_add", "comm_mul", "sum_additivity"]
BIN_OPS = list(BIN) + LAWS


# ------------------------------------------------------------------------------------------------ unary reference
def utc_key(hour, zone):
    pytz = _lib["pytz"]
    base = _dt.datetime(2025, 1, 1)
    local = base + _dt.timedelta(hours=hour)
    utc = pytz.timezone(zone).localize(local).astimezone(pytz.utc).replace(tzinfo=None)
    return (utc - base).total_seconds() / 3600.0


def ref_unary(op, s):
    A = rc(s)
    k = A[0]
    name, arg = op[0], (op[1] if len(op) > 1 else None)
    sc = mag_scale(A)
    f = TABLE[s[2]][0] if k != "e" else None
    if name in ("copy", "copy_copy", "sum1"):
        return VALUE(A, sc)
    if name == "to":
        if k == "e":
            return VALUE(A)
        if TABLE[arg][1] != A[1]:
            return RAISE("dimension")
        return VALUE(A, sc, unit=arg)
    if name in ("sum", "mean", "max"):
        if k == "q" or (k == "e" and name == "mean"):
            return NA
        if k == "e":
            return VALUE(A)
        vals = list(A[2].values())
        r = sum(vals) if name == "sum" else (sum(vals) / len(vals) if name == "mean" else max(vals))
        return VALUE(("q", A[1], r), sc)
    if name == "abs":
        if k == "q":
            return NA
        return VALUE(A if k == "e" else ("h", A[1], {t: abs(v) for t, v in A[2].items()}, A[3]), sc)
    if name == "neg":
        if k != "h":
            return NA
        return VALUE(neg(A), sc)
    if name in ("ceil", "round_builtin", "round_inplace"):
        if name == "round_inplace" and k != "h":
            return NA
        if k == "e":
            return VALUE(A)
        g = (lambda v: float(math.ceil(v))) if name == "ceil" else (lambda v: float(round(v, arg)))
        if k == "q":    # in the operand's own unit, as np.ceil / round do on a bare pint quantity
            return VALUE(("q", A[1], g(s[1]) * f), max(sc, f))
        return VALUE(("h", A[1], {float(s[3] + i): g(v) * f for i, v in enumerate(s[1])}, A[3]), max(sc, f))
    if name == "utc":
        if k != "h":
            return NA
        if A[3] != "naive":
            return FREE("already-aware")
        return VALUE(("h", A[1], {utc_key(t, arg): v for t, v in A[2].items()}, "utc"), sc)
    raise ValueError(op)


def lib_unary(op, a):
    name, arg = op[0], (op[1] if len(op) > 1 else None)
    if name == "copy_copy":
        return _copy.copy(a)
    if name == "sum1":
        return sum([a])
    if name == "neg":
        return -a
    if name == "round_builtin":
        return round(a, arg)
    if name == "round_inplace":
        return a.round(arg)
    if name == "to":
        return a.to(_lib["u"].Unit(arg))
    if name == "utc":
        return a.convert_to_utc(_lib["EO"](_lib["pytz"].timezone(arg), "tz"))
    return getattr(a, name)()


UNARY_ATTR = {"neg": "__neg__", "round_builtin": "__round__", "round_inplace": "round", "copy_copy": "__copy__",
              "sum1": "__radd__", "utc": "convert_to_utc"}
UNARY_METHOD = dict(UNARY_ATTR, sum1="builtin-sum")


def unary_ops():
    ops = [["sum"], ["mean"], ["max"], ["abs"], ["ceil"], ["neg"], ["copy"], ["copy_copy"], ["sum1"]]
    ops += [["round_builtin", n] for n in ROUND_LEVELS] + [["round_inplace", n] for n in ROUND_LEVELS]
    ops += [["to", un] for un in UNITS] + [["utc", z] for z in ZONES]
    return ops


# ------------------------------------------------------------------------------------------------ comparison
def close(x, y, scale):
    if x == y:
        return True
    if x != x or y != y:
        return False
    return abs(x - y) <= REL * max(abs(x), abs(y), scale)


def compare(lib, ref, scale):
    """None if the library value equals the reference value, else (clause, explanation)."""
    if lib[0] != ref[0]:
        return "result-kind", f"library returned {kind_name(lib)} {lib[1] if lib[0] == 'other' else ''}, reference is {kind_name(ref)}"
    if ref[0] == "e":
        return None
    if lib[1] != ref[1]:
        return "result-dimension", f"library dimension {lib[1]} reference {ref[1]}"
    if ref[0] == "q":
        return None if close(lib[2], ref[2], scale) else ("value-mismatch", f"library {lib[2]!r} reference {ref[2]!r} (base units)")
    if lib[3] != ref[3]:
        return "result-timezone", f"library index is {lib[3]}, reference {ref[3]}"
    if set(lib[2]) != set(ref[2]):
        return "result-index", f"library hours {sorted(lib[2])} reference {sorted(ref[2])}"
    bad = [k for k in sorted(ref[2]) if not close(lib[2][k], ref[2][k], scale)]
    if bad:
        return "value-mismatch", (f"at hour {bad[0]}: library {lib[2][bad[0]]!r} reference {ref[2][bad[0]]!r} "
                                  f"(base units; {len(bad)} of {len(ref[2])} hours differ)")
    return None


def render(c):
    if c is None:
        return None
    if c[0] == "h":
        return {"kind": "hourly", "dim": str(c[1]), "tz": c[3], "base_values_by_hour": {str(k): v for k, v in sorted(c[2].items())}}
    if c[0] == "q":
        return {"kind": "scalar", "dim": str(c[1]), "base_value": c[2]}
    return {"kind": kind_name(c)} if c[0] == "e" else {"kind": "other", "what": c[1]}


def digest(c):
    return hashlib.md5(json.dumps(report.jsonable(render(c)), sort_keys=True).encode()).hexdigest()[:10]


def relation(sa, sb):
    """Structural relation of two hourly operands: units / index / tz."""
    if sa[0] != "h" or sb[0] != "h":
        return {}
    units = "same" if sa[2] == sb[2] else ("same-dim" if TABLE[sa[2]][1] == TABLE[sb[2]][1] else "other-dim")
    ha, hb = set(range(sa[3], sa[3] + len(sa[1]))), set(range(sb[3], sb[3] + len(sb[1])))
    if ha == hb:
        idx = "same"
    elif not (ha & hb):
        idx = "disjoint"
    elif ha < hb or hb < ha:
        idx = "nested"
    else:
        idx = "shifted"
    r = {"units": units, "index": idx}
    if (sa[4] is None) != (sb[4] is None):
        r["tz"] = "mixed"
    return r


def sig_rel(sa, sb):
    """Coarse, signature-level form of relation(): are the two hourly indexes equal?  (details keep the full form)"""
    r = relation(sa, sb) if sb is not None else {}
    if not r:
        return {}
    out = {"aligned": "yes" if r["index"] == "same" else "no"}
    if "tz" in r:
        out["tz"] = r["tz"]
    return out


def spec_kind(s):
    return {"e": "empty", "q": "scalar", "h": "hourly"}[s[0]]


def spec_str(s):
    if s[0] == "e":
        return "EMPTY"
    if s[0] == "q":
        return f"{s[1]:g} {s[2]}"
    return f"[{', '.join(f'{v:g}' for v in s[1])}] {s[2]} from hour {s[3]} ({'UTC' if s[4] else 'naive'})"


# ------------------------------------------------------------------------------------------------ evaluation
class Acc:
    def __init__(self):
        self.violations, self.counters, self.digests, self.samples = [], {}, set(), []
        self.evals = self.compared = 0

    def count(self, name, n=1):
        self.counters[name] = self.counters.get(name, 0) + n

    def violation(self, sig, detail, mini):
        self.violations.append({"sig": sig, "detail": detail, "mini": mini})


def check_operands(acc, opname, method, specs, objs, mini, base_sig):
    """Operands keep their physical value (compared with the values they were built from)."""
    for which, s, o in zip(("left", "right"), specs, objs):
        if s is None:
            continue
        want = rc(s)
        try:
            got = canon(o)
        except Exception as ex:  # noqa
            got = ("other", f"operand unreadable after the operation: {type(ex).__name__}: {ex}"[:160])
        acc.compared += 1
        bad = compare(got, want, mag_scale(want))
        if bad is not None:
            sig = {"clause": "operand-mutated", "op": f"{type(o).__name__}.{method}"}
            if len(specs) > 1 and specs[1] is not None:
                sig["which"] = which
                sig["other"] = spec_kind(specs[1 - (which == "right")])
            acc.violation(sig, {"operation": opname, "operand": spec_str(s), "after": render(got), "why": bad[1]}, mini)


def np_clause(opname, sa, sb, what, how=None):
    """Cause-specific clause names for the positional raw-array handling in np_compared_with."""
    if opname not in ("npmax", "npmin") or sa[0] != "h" or sb[0] != "h":
        return None
    rel = relation(sa, sb)
    if what == "no-raise":
        return "np_compared_with-dimension-mismatch-no-raise"
    if rel.get("tz") == "mixed":
        return None
    if what == "raised" and len(sa[1]) != len(sb[1]):
        return "np_compared_with-length-mismatch-raises"
    if what == "mismatch":
        if how == "result-index":                  # the result does not live on the union of the two indexes
            return "np_compared_with-index-positional"
        if rel["units"] == "same-dim":             # right hours, wrong numbers, operands in different units
            return "np_compared_with-unit-mismatch"
        if rel["index"] != "same":
            return "np_compared_with-index-positional"
    return None


def judge(acc, opname, method, recv, ref, status, res, exc, sa, sb, mini, sample=False):
    """Compare one library evaluation with the reference prediction."""
    kinds = f"{spec_kind(sa)}" + (f",{spec_kind(sb)}" if sb is not None else "")
    base = {"op": f"{recv}.{method}"}
    if sb is not None:
        base["other"] = spec_kind(sb)
    rel = sig_rel(sa, sb)
    lib_c = None
    if status == "ok":
        try:
            lib_c = canon(res)
        except Exception as ex:  # noqa
            lib_c = ("other", f"unreadable result: {type(ex).__name__}: {ex}"[:160])
        acc.digests.add(digest(lib_c))
    else:
        acc.digests.add("raise:" + type(exc).__name__)
    detail = {"operation": opname, "a": spec_str(sa), "b": spec_str(sb) if sb is not None else None,
              "library": render(lib_c) if status == "ok" else f"raised {type(exc).__name__}: {str(exc)[:160]}"}
    if rel:
        detail["relation"] = relation(sa, sb)
    if ref.kind == "free":
        acc.count(f"free:{ref.why}:{'returned' if status == 'ok' else 'raised'}")
        oc = "free"
        if status == "ok" and ref.total is not None and lib_c[0] == "h":
            acc.compared += 1
            tot = sum(lib_c[2].values())
            if not close(tot, ref.total, ref.scale):
                acc.violation(dict(base, clause="totals-add-up", **rel),
                              dict(detail, why=f"sum of result {tot!r} != sum(a)+sum(b) {ref.total!r}"), mini)
                oc = "VIOLATION"
    elif ref.kind == "raise":
        acc.compared += 1
        if status == "ok":
            clause = np_clause(opname, sa, sb, "no-raise") or (
                "dimension-mismatch-no-raise" if ref.why == "dimension" else "reference-raises-library-returns")
            sig = dict(base, clause=clause)
            if not clause.startswith("np_compared_with-"):
                sig.update(rel)
            else:
                sig = {"clause": clause}
            acc.violation(sig, dict(detail, why=f"the reference raises ({ref.why}); the library returned a value"), mini)
            oc = "VIOLATION"
        else:
            oc = "raise-agreed"
            acc.count(f"raise-agreed:{ref.why}:{type(exc).__name__}")
    else:
        acc.compared += 1
        detail["reference"] = render(ref.canon)
        if status != "ok":
            if ref.may_refuse:
                oc = "refusal"
                acc.count(f"documented-refusal:{opname}:{kinds}:{type(exc).__name__}")
            else:
                clause = np_clause(opname, sa, sb, "raised") or "raises-but-reference-defined"
                sig = {"clause": clause} if clause.startswith("np_compared_with-") else dict(
                    base, clause=clause, exception=type(exc).__name__, **rel)
                acc.violation(sig, dict(detail, why="the reference gives a value; the library raised"), mini)
                oc = "VIOLATION"
        else:
            bad = compare(lib_c, ref.canon, ref.scale)
            if bad is None and ref.unit is not None and lib_c[0] in ("q", "h"):
                have = res.value.units if lib_c[0] == "q" else res.unit
                if have != _lib["u"].Unit(ref.unit):
                    bad = ("result-unit", f"asked for {ref.unit}, result is in {have}")
            if bad is None:
                oc = "value-agreed"
            else:
                clause = (np_clause(opname, sa, sb, "mismatch", bad[0]) if bad[0] in ("value-mismatch", "result-index") else None) or bad[0]
                sig = {"clause": clause} if clause.startswith("np_compared_with-") else dict(base, clause=clause, **rel)
                acc.violation(sig, dict(detail, why=bad[1]), mini)
                oc = "VIOLATION"
    acc.count(f"outcome:{oc}")
    if sample and len(acc.samples) < 4 and oc in ("value-agreed", "raise-agreed"):
        acc.samples.append(dict(detail, verdict=oc))
    return lib_c


def call(fn, *args):
    try:
        return "ok", fn(*args), None
    except Exception as ex:  # noqa: any exception is a refusal / raise of the library
        return "raised", None, ex


def eval_binary(acc, opname, sa, sb, sample):
    mini = {"kind": "bin", "a": sa, "bs": [sb], "ops": [opname]}
    if opname in LAWS:
        return eval_law(acc, opname, sa, sb, mini)
    fn, reffn, need, method = BIN[opname]
    a, b = mk(sa), mk(sb)
    recv = type(a).__name__
    if need is not None and not hasattr(type(a), need):
        acc.count("outcome:na")
        return
    ref = reffn(sa, sb)
    if ref.kind == "na":
        # the reference has no such operation for this receiver kind but the class defines the method
        ref = FREE("method-on-unexpected-kind")
    status, res, exc = call(fn, a, b)
    acc.evals += 1
    judge(acc, opname, method, recv, ref, status, res, exc, sa, sb, mini, sample)
    check_operands(acc, opname, method, (sa, sb), (a, b), mini, None)


def eval_law(acc, opname, sa, sb, mini):
    recv = type(mk(sa)).__name__
    rel = sig_rel(sa, sb)
    sc = max(mag_scale(rc(sa)), mag_scale(rc(sb)))
    if opname in ("comm_add", "comm_mul"):
        f = (lambda x, y: x + y) if opname == "comm_add" else (lambda x, y: x * y)
        method = "__add__" if opname == "comm_add" else "__mul__"
        s1, r1, e1 = call(f, mk(sa), mk(sb))
        s2, r2, e2 = call(f, mk(sb), mk(sa))
        acc.evals += 2
        acc.compared += 1
        base = {"clause": "commutativity", "op": f"{recv}.{method}", "other": spec_kind(sb)}
        detail = {"operation": opname, "a": spec_str(sa), "b": spec_str(sb)}
        if s1 != s2:
            acc.violation(dict(base, how="one-order-raises", **rel),
                          dict(detail, a_op_b=s1 if s1 == "ok" else f"raised {type(e1).__name__}",
                               b_op_a=s2 if s2 == "ok" else f"raised {type(e2).__name__}"), mini)
            acc.count("outcome:VIOLATION")
        elif s1 == "ok":
            c1, c2 = canon(r1), canon(r2)
            bad = compare(c1, c2, 0.0 if opname == "comm_mul" else sc)
            if bad is not None:
                acc.violation(dict(base, how=bad[0], **rel),
                              dict(detail, a_op_b=render(c1), b_op_a=render(c2), why=bad[1]), mini)
                acc.count("outcome:VIOLATION")
            else:
                acc.count("outcome:law-holds")
        else:
            acc.count("outcome:law-both-raise")
        return
    # sum(a+b) == sum(a) + sum(b), evaluated entirely with library operations
    a0 = mk(sa)
    if not hasattr(type(a0), "sum") or not hasattr(type(mk(sb)), "sum"):
        acc.count("outcome:na")
        return
    s1, r1, e1 = call(lambda x, y: (x + y).sum(), mk(sa), mk(sb))
    acc.evals += 1
    if s1 != "ok":
        acc.count("outcome:law-not-applicable-sum-raises")
        return
    s2, r2, e2 = call(lambda x, y: x.sum() + y.sum(), mk(sa), mk(sb))
    acc.evals += 1
    acc.compared += 1
    base = {"clause": "sum-additivity", "op": f"{recv}.__add__", "other": spec_kind(sb)}
    detail = {"operation": opname, "a": spec_str(sa), "b": spec_str(sb)}
    if s2 != "ok":
        acc.violation(dict(base, how="sum-of-sums-raises", **rel),
                      dict(detail, why=f"(a+b).sum() returned but a.sum()+b.sum() raised {type(e2).__name__}: {e2}"[:300]), mini)
        acc.count("outcome:VIOLATION")
        return
    c1, c2 = canon(r1), canon(r2)
    tot = sum(abs(v) for s in (sa, sb) if s[0] == "h" for v in rc(s)[2].values())
    bad = compare(c1, c2, tot)
    if bad is not None:
        acc.violation(dict(base, how=bad[0], **rel),
                      dict(detail, sum_of_sum=render(c1), sum_of_sums=render(c2), why=bad[1]), mini)
        acc.count("outcome:VIOLATION")
    else:
        acc.count("outcome:law-holds")


def eval_unary(acc, op, sa, sample):
    mini = {"kind": "un", "as": [sa], "ops": [op]}
    a = mk(sa)
    recv = type(a).__name__
    attr = UNARY_ATTR.get(op[0], op[0])
    method = UNARY_METHOD.get(op[0], op[0])
    opname = op[0] + (f"({op[1]})" if len(op) > 1 else "")
    if not hasattr(type(a), attr):
        acc.count("outcome:na")
        return
    ref = ref_unary(op, sa)
    if ref.kind == "na":
        ref = FREE("method-on-unexpected-kind")
    status, res, exc = call(lib_unary, op, a)
    acc.evals += 1
    judge(acc, opname, method, recv, ref, status, res, exc, sa, None, mini, sample)
    check_operands(acc, opname, method, (sa,), (a,), mini, None)


# ------------------------------------------------------------------------------------------------ operands with a history
# Sequences of value-preserving operations applied to ONE operand (reads whose result is discarded, and in-place unit
# conversions), followed by one probe operation.  Oracle (differential, no hand-written expectation): the probe on the
# operand that went through the history gives the same physical result as the probe on an operand freshly built from
# the very numbers and unit the first one now holds; and the operand still has the physical value it was built with.
def hist_menu(sa):
    if sa[0] == "e":
        return [["str"], ["copy"], ["add_same"]]
    dims = TABLE[sa[2]][1]
    menu = [["str"], ["unit"], ["copy"], ["add_same"], ["sum1"]]
    menu += [["to", un] for un in UNITS if TABLE[un][1] == dims and un != sa[2]][:3]
    if sa[0] == "h":
        menu += [["neg"], ["abs"], ["sum"], ["ceil"], ["npmax_empty"]]
    return menu


def apply_hist(a, sa, hop):
    name = hop[0]
    if name == "str":
        str(a)
        repr(a)
    elif name == "unit":
        getattr(a, "unit", None)
        getattr(a, "magnitude", None)
    elif name == "add_same":
        a + mk(sa)
    elif name == "npmax_empty":
        a.np_compared_with(_lib["eo"].EmptyExplainableObject(), "max")
    else:
        lib_unary(hop, a)


def rebuilt(a):
    """A fresh object holding the numbers and the unit the operand really holds now (read from its data, not from
    any helper of the class under test)."""
    eo, u, pd, np, pp = _lib["eo"], _lib["u"], _lib["pd"], _lib["np"], _lib["pp"]
    if isinstance(a, eo.EmptyExplainableObject):
        return eo.EmptyExplainableObject()
    if isinstance(a, eo.ExplainableQuantity):
        return eo.ExplainableQuantity(u.Quantity(float(a.value.magnitude), a.value.units), "q")
    qty = a.value["value"].values.quantity
    df = pd.DataFrame({"value": pp.PintArray(np.array(qty.magnitude, dtype=float), dtype=qty.units)},
                      index=a.value.index.copy())
    return eo.ExplainableHourlyQuantities(df, "h")


def hist_probes(sa):
    probes = [("un", op) for op in unary_ops()]
    probes += [("bin", name) for name in ("add", "sub", "mul", "npmax", "npmin", "sum2", "radd", "rmul")]
    return probes


def run_probe(kind, op, a, sa):
    if kind == "un":
        attr = UNARY_ATTR.get(op[0], op[0])
        if not hasattr(type(a), attr):
            return "na", None, None
        return call(lib_unary, op, a)
    fn, _, need, _ = BIN[op]
    if need is not None and not hasattr(type(a), need):
        return "na", None, None
    return call(fn, a, mk(sa))


def eval_history(acc, sa, hist):
    mini = {"kind": "hist", "as": [sa], "hists": [hist]}
    for kind, op in hist_probes(sa):
        a = mk(sa)
        ok = True
        for hop in hist:
            st, _, exc = call(apply_hist, a, sa, hop)
            if st == "raised":
                ok = False
                break
        if not ok:
            acc.count("outcome:history-refused")
            return
        fresh = rebuilt(a)
        st1, r1, e1 = run_probe(kind, op, a, sa)
        st2, r2, e2 = run_probe(kind, op, fresh, sa)
        if st1 == "na":
            acc.count("outcome:na")
            continue
        acc.evals += 1
        acc.compared += 1
        opname = op if kind == "bin" else op[0] + (f"({op[1]})" if len(op) > 1 else "")
        hname = ">".join(x[0] + (f"({x[1]})" if len(x) > 1 else "") for x in hist)
        sig = {"clause": "history-dependent-result", "probe": opname.split("(")[0],
               "history": ">".join(x[0] for x in hist), "kind": spec_kind(sa)}
        if st1 != st2:
            acc.violation(sig, {"operand": spec_str(sa), "history": hname, "probe": opname,
                                "with_history": st1 + (f": {type(e1).__name__}: {e1}"[:120] if e1 else ""),
                                "fresh": st2 + (f": {type(e2).__name__}: {e2}"[:120] if e2 else "")}, mini)
            acc.count("outcome:VIOLATION")
            continue
        if st1 == "raised":
            acc.count("outcome:both-refused")
            continue
        try:
            c1, c2 = canon(r1), canon(r2)
        except Exception as ex:  # noqa
            c1, c2 = ("other", f"unreadable result: {type(ex).__name__}: {ex}"[:120]), ("other", "?")
        bad = compare(c1, c2, mag_scale(c2) if c2[0] in ("q", "h") else 0.0) if c1[0] != "other" or c2[0] != "other" \
            else (None if c1 == c2 else ("result-kind", f"{c1} vs {c2}"))
        if bad is not None:
            acc.violation(sig, {"operand": spec_str(sa), "history": hname, "probe": opname, "why": bad[1],
                                "with_history": render(c1), "fresh": render(c2)}, mini)
            acc.count("outcome:VIOLATION")
        else:
            acc.count("outcome:history-agreed")
            acc.digests.add("hist:" + digest(c1))
    # the operand keeps the physical value it was built with through the history alone
    a = mk(sa)
    for hop in hist:
        call(apply_hist, a, sa, hop)
    check_operands(acc, "history " + ">".join(x[0] for x in hist), "history", (sa,), (a,), mini, None)


def histories(sa, maxlen):
    menu = hist_menu(sa)
    out, level = [], [[]]
    for _ in range(maxlen):
        level = [hh + [m] for hh in level for m in menu]
        out += level
    return out


def eval_registry(acc):
    """The factor table used by the reference is the library's registry (units.py + custom_units.txt)."""
    u = _lib["u"]
    for unit, (f, d) in list(TABLE.items()) + list(EXTRA_TABLE.items()):
        acc.evals += 1
        acc.compared += 1
        mini = {"kind": "registry"}
        try:
            qty = u.Quantity(1.0, unit)
            got = (pint_dims(qty), float(qty.to_base_units().magnitude))
        except Exception as ex:  # noqa
            got = (None, f"{type(ex).__name__}: {ex}")
        if got[0] != d or not isinstance(got[1], float) or not close(got[1], f, 0.0):
            acc.violation({"clause": "unit-definition", "unit": unit},
                          {"unit": unit, "registry": [str(got[0]), got[1]], "table": [str(d), f]}, mini)
            acc.count("outcome:VIOLATION")
        else:
            acc.count("outcome:value-agreed")
            acc.digests.add(f"unit:{unit}")


def run_task(task):
    if not _lib:
        prepare()
    acc = Acc()
    if task["kind"] == "bin":
        for sb in task["bs"]:
            for i, op in enumerate(task["ops"]):
                eval_binary(acc, op, task["a"], sb, sample=task.get("sample", False))
    elif task["kind"] == "un":
        for sa in task["as"]:
            for op in task["ops"]:
                eval_unary(acc, op, sa, sample=task.get("sample", False))
    elif task["kind"] == "hist":
        for sa in task["as"]:
            for hist in task["hists"]:
                eval_history(acc, sa, hist)
    elif task["kind"] == "registry":
        eval_registry(acc)
    else:
        raise ValueError(task["kind"])
    acc.counters["evals"] = acc.evals
    acc.counters["compared"] = acc.compared
    return {"outcome": "violations" if acc.violations else "ok", "violations": acc.violations,
            "counters": acc.counters, "digests": sorted(acc.digests), "samples": acc.samples}


# ------------------------------------------------------------------------------------------------ main
def main(tier):
    prepare()
    run = report.Run(PROP, tier)
    alpha = alphabet(tier)
    chunk = 8
    tasks = [{"kind": "registry"}]
    for sa in alpha:
        for i in range(0, len(alpha), chunk):
            tasks.append({"kind": "bin", "a": sa, "bs": alpha[i:i + chunk], "ops": BIN_OPS})
    uops = unary_ops()
    for i in range(0, len(alpha), 4):
        tasks.append({"kind": "un", "as": alpha[i:i + 4], "ops": uops})
    hist_len = 2 if tier == "quick" else 3
    n_hist = 0
    for sa in alpha:
        hs = histories(sa, hist_len)
        n_hist += len(hs)
        for i in range(0, len(hs), 40):
            tasks.append({"kind": "hist", "as": [sa], "hists": hs[i:i + 40]})
    engine.start(run_task)
    results = engine.pmap(tasks)
    engine.stop()
    timeouts = engine.check_results(results, run)
    counters, digests, samples = {}, set(), []
    for t, r in zip(tasks, results):
        if r.get("_timeout"):
            run.violation({"clause": "timeout", "kind": t["kind"]}, {"task": t, "detail": "task did not terminate", "size": 10 ** 6})
            continue
        for v in r["violations"]:
            run.violation(v["sig"], {"task": v["mini"], "detail": v["detail"], "size": len(json.dumps(v["mini"]))})
        for c, n in r["counters"].items():
            counters[c] = counters.get(c, 0) + n
        digests.update(r["digests"])
        samples += r["samples"]
    # a few cases written out (members of the enumerated space, re-evaluated here for the evidence file)
    hA, hB, hD = h("GB", 3, 0, None, 0), h("MB", 3, 1, None, 0), h("GB", 2, 5, None, 1)
    for t in ({"kind": "bin", "a": hA, "bs": [hB], "ops": ["add"]}, {"kind": "bin", "a": hA, "bs": [hD], "ops": ["mul"]},
              {"kind": "bin", "a": q(1, "GB"), "bs": [q(2.5, "W")], "ops": ["add"]},
              {"kind": "bin", "a": hA, "bs": [E], "ops": ["npmin"]}, {"kind": "bin", "a": E, "bs": [q(1, "kW")], "ops": ["mul"]},
              {"kind": "bin", "a": hA, "bs": [q(2.5, "hour")], "ops": ["shift"]},
              {"kind": "un", "as": [hA], "ops": [["utc", "Asia/Kolkata"]]},
              {"kind": "un", "as": [q(1, "kW")], "ops": [["to", "W"]]}):
        samples += run_task(dict(t, sample=True))["samples"][:1]
    spread = samples
    n = len(alpha)
    outcomes = {k[len("outcome:"):]: v for k, v in counters.items() if k.startswith("outcome:")}
    for k, v in counters.items():
        if not k.startswith("outcome:") and k not in ("evals", "compared"):
            run.count(k, v)
    cov = {
        "states": n * n + n,
        "transitions": counters.get("evals", 0),
        "traces_validated_against_impl": counters.get("compared", 0),
        "samples": spread[:8],
        "exhaustive": not timeouts,
        "alphabet_size": n,
        "alphabet": {"scalars": sum(1 for s in alpha if s[0] == "q"), "hourly": sum(1 for s in alpha if s[0] == "h"),
                     "empty": 1},
        "ordered_pairs": n * n,
        "binary_operations": BIN_OPS,
        "unary_operations_per_operand": len(uops),
        "outcomes": outcomes,
        "distinct_outcomes": len(digests),
        "bounds": (f"all {n}x{n} ordered pairs of the operand alphabet x {len(BIN)} binary operations + {len(LAWS)} laws; "
                   f"all {n} operands x {len(uops)} unary helpers (to() towards {len(UNITS)} units, convert_to_utc from "
                   f"{len(ZONES)} zones, rounding levels {ROUND_LEVELS}); hourly series of length 1-4 in January 2025; "
                   f"binary / unary parts: one operation per evaluation; history part: every sequence of length <= {hist_len} of "
                   f"value-preserving operations on one operand ({n_hist} operand histories) followed by each of "
                   f"{len(unary_ops()) + 8} probe operations, compared with the probe on a freshly rebuilt operand"),
        "operand_histories": n_hist,
        "explanation": "every evaluation builds fresh operands, runs the real operator, compares result and operands "
                       "with the reference model (bare pint for scalar pairs, dict[hour->float] in base units for hourly)",
    }
    return run.finish(cov, assumptions=[
        "pint itself (bare Quantity arithmetic, DimensionalityError) is the oracle for scalar pairs; the factor table of "
        "the hourly reference is cross-checked against the library registry by the 'registry' task",
        "tolerance: relative 1e-9 of max(|result|, largest operand value in base units) for + - max min sum, purely "
        "relative 1e-9 for * and / (an absolute floor of 1e-12 in base units would hide errors: 1 g/kWh = 2.8e-10 base units)",
        "where the statement defines no result (x - y and x / y on unequal indexes, zero divisors, mixed aware/naive, "
        "division with the empty value) the library is free to raise or return; documented refusals of a defined "
        "combination (scalar +/- hourly, hourly / hourly, empty - x) are counted, not flagged",
        "information units are dimensionless in pint (bit = []), so GB + dimensionless is legal in the reference too",
    ])


if __name__ == "__main__":
    try:
        sys.exit(main(sys.argv[1] if len(sys.argv) > 1 else "quick"))
    except engine.CrashError as e:
        print("HARNESS-ERROR", e)
        sys.exit(2)
