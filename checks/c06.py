"""C06 — a what-if simulation computes what really making the change would.

 (a) date = first modelled hour: every recomputed quantity, read while the simulated values are switched on, equals
     the value obtained on an identically built twin on which the same change list was really applied;
 (b) date at which every usage pattern is still active: no hourly value among the recomputed values (dict entries
     included) has an hour before the date;
 (c) any date: values_to_recompute and recomputed_values have equal length and are twin-linked pairwise in both
     directions, each simulated value sitting (when switched on) exactly where its baseline twin sits (same id);
 (d) naive dates and dates outside the modelled period raise.
"""
import json
import sys

import numpy as np

from efmc import boot, engine, report, world as W, snap as S, hist as H
from checks import c05

PROP = "C06"


def prepare():
    boot.install_seams()


def modelled_period(m):
    """(earliest, latest) UTC ns over every hourly series of the model (inputs localised with their country's zone)."""
    import pandas as pd
    lo, hi = None, None
    objs = [S.unwrap(o) for o in m.objs.values()]
    for o, attr, k, v in S.held_values(objs):
        if not isinstance(v, S.ExplainableHourlyQuantities):
            continue
        idx = v.value.index
        if len(idx) == 0:
            continue
        if idx.tz is None:
            tzv = getattr(getattr(o, "country", None), "timezone", None)
            if tzv is None:
                continue
            idx = idx.tz_localize(tzv.value, nonexistent="shift_forward", ambiguous=np.full(len(idx), True))
        a, b = idx.min().value, idx.max().value
        lo = a if lo is None else min(lo, a)
        hi = b if hi is None else max(hi, b)
    return lo, hi


def active_window(m):
    """[latest first hour, earliest last hour] of the patterns' UTC starts (ns), or None if empty."""
    firsts, lasts = [], []
    for up in m.system.usage_patterns:
        idx = up.utc_hourly_usage_journey_starts.value.index
        firsts.append(idx.min().value)
        lasts.append(idx.max().value)
    lo, hi = max(firsts), min(lasts)
    return (lo, hi) if lo <= hi else None


def ns_to_date(ns):
    import pandas as pd
    return pd.Timestamp(ns, tz="UTC").strftime("%Y-%m-%d %H:%M") + " UTC"


def expand(values):
    out = []
    for v in values:
        if isinstance(v, dict):
            out += list(v.values())
        else:
            out.append(v)
    return out


def holder_key(v):
    c = v.modeling_obj_container
    return None if c is None else (S.unwrap(c).name, v.attr_name_in_mod_obj_container)


def run_task(task):
    w = H.world_of(task)
    perms = task.get("perms")
    m = W.build(w, perms=perms)
    res = {"violations": [], "counters": {}}
    changes = task["changes"]
    lc = "sim[" + ", ".join(engine.letter_class(s, w) for s in changes) + "]"
    zone_changed = "no"
    for s_ in changes:
        if s_[0] == "set" and s_[2] == "timezone":
            zone_changed = "yes"
        if s_[0] == "link" and s_[2] == "country":
            old_c = w["objects"][s_[1]]["attrs"]["country"][1]
            if w["objects"][old_c]["attrs"]["timezone"] != w["objects"][s_[3]]["attrs"]["timezone"]:
                zone_changed = "yes"
    kind = task["date_kind"]
    lo, hi = modelled_period(m)
    if kind == "first":
        date = ns_to_date(lo)
    elif kind == "active":
        aw = active_window(m)
        if aw is None:
            res["outcome"] = "no-active-window"
            return res
        step = 3600 * 10 ** 9
        cands = list(range(aw[0], aw[1] + 1, step))
        date = ns_to_date(cands[min(task.get("active_index", 0), len(cands) - 1)])
    elif kind == "before":
        date = ns_to_date(lo - 3600 * 10 ** 9 * 5)
    elif kind == "after":
        date = ns_to_date(hi + 3600 * 10 ** 9 * 5)
    elif kind == "naive":
        date = ns_to_date(lo + 3600 * 10 ** 9).replace(" UTC", " naive")
    else:
        date = task["date"]
    res["date"] = date
    # ids of the baseline values, read before anything happens
    try:
        W.apply_live(m, ["sim", changes, date])
    except Exception as ex:  # noqa
        res["outcome"] = "raised:" + type(ex).__name__
        if kind in ("before", "after", "naive"):
            return res
        # a refused simulation inside the period: compare with really applying (must be refused too)
        try:
            m2 = W.build(w, perms=perms)
            W.apply_live(m2, ["multi", changes])
            res["counters"]["simulation_refused_but_real_update_accepted:" + lc] = 1
        except Exception:  # noqa
            pass
        return res
    res["outcome"] = "created"
    if kind in ("before", "after", "naive"):
        res["violations"].append({"sig": {"clause": "date-not-rejected", "date_kind": kind, "change": lc},
                                  "detail": {"date": date, "period": [ns_to_date(lo), ns_to_date(hi)]}})
        return res
    sim = m.sim
    vt, rv = sim.values_to_recompute, sim.recomputed_values
    # (c) pairing
    if len(vt) != len(rv):
        res["violations"].append({"sig": {"clause": "pairing-length", "change": lc},
                                  "detail": {"to_recompute": len(vt), "recomputed": len(rv)}})
    base_ids = []
    for a in vt:
        try:
            base_ids.append(a.id)
        except Exception as ex:  # noqa
            base_ids.append("<no id: %s>" % type(ex).__name__)
    for i, (a, b) in enumerate(zip(vt, rv)):
        if isinstance(a, dict):
            continue   # twin attributes are set on the dict object itself; entries are checked through ids below
        if getattr(a, "simulation_twin", None) is not b or getattr(b, "baseline_twin", None) is not a:
            hk = holder_key(a)
            res["violations"].append({"sig": {"clause": "twins-not-linked", "change": lc,
                                              "where": S.class_attr(m.objs[hk[0]], hk[1]) if hk else "?"},
                                      "detail": {"index": i}})
            break
    sim.set_updated_values()
    boot.set_ranks(m.ranks)
    on_ids = []
    for b in rv:
        try:
            on_ids.append(b.id)
        except Exception as ex:  # noqa
            on_ids.append("<no id: %s>" % type(ex).__name__)
    for i, (x, y) in enumerate(zip(base_ids, on_ids)):
        if x != y:
            res["violations"].append({"sig": {"clause": "twin-ids-differ", "change": lc},
                                      "detail": {"index": i, "baseline_id": x, "simulated_id": y}})
            break
    # (b) no hour before the date
    if kind == "active":
        d_ns = W.parse_date(date).timestamp() * 1e9
        for v in expand(rv):
            if isinstance(v, S.ExplainableHourlyQuantities) and len(v.value.index):
                idx = v.value.index
                first = idx.min().value if idx.tz is not None else None
                if first is not None and first < d_ns - 1:
                    hk = holder_key(v)
                    res["violations"].append({
                        "sig": {"clause": "hour-before-simulation-date", "change": lc, "zone_changed": zone_changed,
                                "where": S.class_attr(m.objs[hk[0]], hk[1]) if hk else "?"},
                        "detail": {"date": date, "first_hour": ns_to_date(first), "holder": hk}})
                    break
    # (a) equality with the really-updated twin
    if kind == "first":
        keys = set()
        for v in expand(rv) + [x for x in rv if isinstance(x, dict)]:
            hk = holder_key(v)
            if hk is not None:
                keys.add(hk)
        on_snap = {k: v for k, v in S.value_snapshot(m.system).items() if k in keys}
        try:
            m2 = W.build(w, perms=perms)
            W.apply_live(m2, ["multi", changes])
            boot.set_ranks(m2.ranks)
            real = {k: v for k, v in S.value_snapshot(m2.system).items() if k in keys}
            d = S.diff(on_snap, real, empty_entries_neutral=True)
            if d:
                rank = S.canonical_rank(S.system_objects(m2.system))
                first = min(d, key=lambda t: (rank.get(t[0], (99, 99)), t[0]))
                o = m2.objs.get(first[0][0])
                res["violations"].append({
                    "sig": {"clause": "simulated-differs-from-real-update", "change": lc,
                            "first_divergent": S.class_attr(o, first[0][1]) if o is not None else str(first[0])},
                    "detail": {"date": date, "n_divergent": len(d), "first": [list(first[0]), first[1], first[2]]}})
            res["vdigest"] = S.digest(on_snap, 9)
            res["n_recomputed"] = len(keys)
        except Exception as ex:  # noqa
            res["counters"]["real_update_raises_but_simulation_created:" + lc + ":" + type(ex).__name__] = 1
    sim.reset_values()
    return res


TIERS = {"quick": {"worlds": [("W1", "rev"), ("W2", "rev"), ("W3", "default")], "active": [0, 1]},
         "thorough": {"worlds": [("W1", "dev1"), ("W1c", "rev"), ("W2", "dev1"), ("W3", "rev"), ("W4", "default")], "active": [0, 1, 2, 3]}}


def make_tasks(tier):
    cfg = TIERS[tier]
    tasks = []
    for fam, sched in cfg["worlds"]:
        w = W.family(fam)
        if sched == "rev":
            scheds = [{}, H.reversed_schedule(w)]
        elif sched == "dev1":
            scheds = H.perm_sets(w, 1, only_groups=["UsagePattern", "Job"])
        else:
            scheds = [{}]
        chs = c05.change_lists(fam)
        for perms in scheds:
            for ch in chs:
                tasks.append({"world": fam, "perms": perms, "changes": ch, "date_kind": "first"})
                for ai in cfg["active"]:
                    tasks.append({"world": fam, "perms": perms, "changes": ch, "date_kind": "active", "active_index": ai})
            for ch in chs[:6]:
                for k in ("before", "after", "naive"):
                    tasks.append({"world": fam, "perms": perms, "changes": ch, "date_kind": k})
    return tasks


def main(tier):
    prepare()
    run = report.Run(PROP, tier)
    engine.start(run_task, warm=boot.warm_up)
    tasks = make_tasks(tier)
    results = engine.pmap(tasks)
    engine.check_results(results, run)
    engine.stop()
    outcomes, digests, nrec = {}, set(), 0
    for t, r in zip(tasks, results):
        if r.get("_timeout"):
            run.violation({"clause": "timeout", "change": str(t["changes"])[:80]}, {"task": t, "size": len(t["changes"])})
            continue
        key = t["date_kind"] + ":" + r["outcome"]
        outcomes[key] = outcomes.get(key, 0) + 1
        if r.get("vdigest"):
            digests.add(r["vdigest"])
        nrec += r.get("n_recomputed", 0)
        for c, n in r.get("counters", {}).items():
            run.count(c, n)
        for v in r["violations"]:
            run.violation(v["sig"], {"task": t, "detail": v["detail"], "size": len(t["changes"])})
    cov = {"states": len(tasks), "transitions": len(tasks), "traces_validated_against_impl": outcomes.get("first:created", 0),
           "recomputed_quantities_compared_with_real_update": nrec,
           "samples": [tasks[0], tasks[1], tasks[-1]], "exhaustive": True, "outcomes": outcomes,
           "distinct_outcomes": len(digests),
           "bounds": f"worlds/schedules {TIERS[tier]['worlds']}; change lists of C05 (one per class.attr + link/list + pairs); "
                     f"dates: first modelled hour, {len(TIERS[tier]['active'])} hours of the all-active window, before, after, naive"}
    return run.finish(cov, assumptions=[
        "'outside the modelled period' = earlier than the earliest / later than the latest hour of every hourly series",
        "clause (a) compares the holders of recomputed_values only, EMPTY dict entries neutral"])


if __name__ == "__main__":
    try:
        sys.exit(main(sys.argv[1] if len(sys.argv) > 1 else "quick"))
    except engine.CrashError as e:
        print("HARNESS-ERROR", e)
        sys.exit(2)
