"""C08 — the calculation graph is consistent and complete.

 (i)   state monitor: in every state of a bounded exploration of edits, simulations and toggles, by object identity,
       a in v.ancestors <=> v in a.children, every ancestor/child is a value currently held by the model, no cycle;
 (ii)  completeness: for every (input, calculated attribute) pair of each world, if perturbing the input changes the
       attribute in a fresh build then the input is a transitive ancestor of the attribute and the attribute is in
       the input's update chain;
 (iii) update order: for ALL DAGs with <= 5 nodes x every registration order of the nodes, attr_updates_chain of
       every node lists each descendant exactly once, after all of its own ancestors that are descendants.
"""
import itertools
import json
import sys

from efmc import boot, engine, report, world as W, snap as S, hist as H
from checks import c01

PROP = "C08"


def prepare():
    boot.install_seams()


# ---------------------------------------------------------------------------------------------- (i) monitor
def holder_roles(sim):
    """{id(value): role} of the values a simulation put in place (while switched on)."""
    roles = {}
    if sim is None:
        return roles
    for v in getattr(sim, "replaced_ancestors_copies", []):
        roles[id(v)] = "copy"
    for v in getattr(sim, "filtered_hourly_quantities", []):
        roles[id(v)] = "filtered"
    for v in getattr(sim, "recomputed_values", []):
        for x in (list(v.values()) if isinstance(v, dict) else [v]):
            roles[id(x)] = "recomputed"
    for ch in getattr(sim, "changes_list", []):
        roles[id(ch[1])] = "new-input"
    # baseline values swapped out while the simulation is switched on (they are put back by reset_values)
    for v in getattr(sim, "all_previous_obj_linked_to_mod_obj", []):
        for x in ([v] + list(v.values()) if isinstance(v, dict) else [v]):
            roles[id(x)] = "swapped-out-baseline-value"
    return roles


def graph_violations(objs, universe_objs=None, roles=None):
    """Return list of (clause, where, other end[, role of the holder]) for the calculation graph of the values held by `objs`."""
    out = []
    roles = roles or {}
    held = list(S.held_values(objs))
    held_ids = {id(v) for _, _, _, v in held}
    if universe_objs is not None:
        held_ids |= {id(v) for _, _, _, v in S.held_values(universe_objs)}
    for o, attr, k, v in held:
        where = f"{type(o).__name__}.{attr}"
        for a in v.direct_ancestors_with_id:
            d = S.describe_value(a)
            if d.startswith("DETACHED") or d.startswith("SUPERSEDED"):
                out.append(("ancestor-not-held", where, d, roles.get(id(v), "other"), roles.get(id(a), "unknown")))
            elif not any(c is v for c in a.direct_children_with_id):
                out.append(("ancestor-without-back-link", where, d))
        for c in v.direct_children_with_id:
            d = S.describe_value(c)
            if d.startswith("DETACHED") or d.startswith("SUPERSEDED"):
                out.append(("child-not-held", where, d, roles.get(id(v), "other"), roles.get(id(c), "unknown")))
            elif not any(a is v for a in c.direct_ancestors_with_id):
                out.append(("child-without-back-link", where, d))
    # cycles (DFS over children, by identity)
    color = {}

    def dfs(v, depth=0):
        color[id(v)] = 1
        for c in v.direct_children_with_id:
            st = color.get(id(c), 0)
            if st == 1:
                return True
            if st == 0 and depth < 400 and dfs(c, depth + 1):
                return True
        color[id(v)] = 2
        return False
    for o, attr, k, v in held:
        if color.get(id(v), 0) == 0 and dfs(v):
            out.append(("cycle", f"{type(o).__name__}.{attr}", ""))
            break
    return out


SIM_DATES = ["2025-01-01 02:00 UTC"]


def sim_letters(w, w0):
    """A few simulations (numeric / hourly / link / list change) for the state monitor."""
    nums = [e for e in H.numeric_letters(w, w0, specials=False)
            if e[2] in ("data_transferred", "user_time_spent", "average_carbon_intensity", "ram_needed",
                        "hourly_usage_journey_starts", "power")]
    seen, out = set(), []
    for e in nums:
        if (e[1], e[2]) in seen:
            continue
        seen.add((e[1], e[2]))
        out.append(["sim", [e], SIM_DATES[0]])
    for e in (H.link_letters(w)[:3] + H.list_letters(w, allow_empty=False)[:3]):
        out.append(["sim", [e], SIM_DATES[0]])
    return out


def run_state_task(task):
    w = H.world_of(task)
    perms = task.get("perms")
    m = W.build(w, perms=perms)
    mode = "off"
    for e in task.get("history", []):
        w = W.apply_spec(w, e)
        W.apply_live(m, e)
        mode = {"sim": "off", "on": "on", "off": "off"}.get(e[0], mode)
    letter = task.get("letter")
    res = {"violations": [], "counters": {}}
    if letter is not None:
        try:
            w2 = W.apply_spec(w, letter)
            W.apply_live(m, letter)
            mode = {"sim": "off", "on": "on", "off": "off"}.get(letter[0], mode)
        except Exception as ex:  # noqa
            res["outcome"] = "rejected"
            res["key"] = None
            return res
    else:
        w2 = w
    res["outcome"] = "accepted"
    boot.set_ranks(m.ranks)
    objs = S.system_objects(m.system)
    universe = list(m.objs.values())
    lc = engine.letter_class(letter, w)
    seen = set()
    roles = holder_roles(m.sim) if mode == "on" else {}
    for item in graph_violations(objs, universe, roles):
        clause, where, d = item[0], item[1], item[2]
        target = d.split("(")[0] if "(" in d else "held"
        tgt_where = d[d.find("(") + 1:].split(":")[0] if d.startswith("SUPERSEDED") else ""
        sig = {"clause": clause, "where": where, "mode": mode, "letter": lc, "other": target + (":" + tgt_where if tgt_where else "")}
        if mode == "on":
            sig["holder"] = item[3] if len(item) > 3 else "other"
            sig["other_is"] = item[4] if len(item) > 4 else "unknown"
        key = json.dumps(sig, sort_keys=True)
        if key in seen:
            continue
        seen.add(key)
        res["violations"].append({"sig": sig, "detail": {"other_end": d}})
    res["vdigest"] = S.graph_digest(objs)
    res["key"] = json.dumps([perms, W.canon_world(w2), mode, res["vdigest"],
                             [e for e in task.get("history", []) + [letter] if e and e[0] in ("sim", "on", "off")]],
                            sort_keys=True)
    res["expand"] = not res["violations"]
    return res


def state_alphabet(fam, with_sims, depth_edits=99):
    w0 = W.family(fam)

    def alphabet_of(node, info, depth):
        hist = node["history"]
        w = H.fold_spec(W.family(fam), hist)
        has_sim = any(e[0] == "sim" for e in hist)
        if not has_sim and len(hist) >= depth_edits:
            return []       # the two extra levels are for the toggles that follow a simulation only
        if has_sim:
            # after a simulation: toggles only (edits on a system with a pending simulation are out of scope)
            last = [e[0] for e in hist if e[0] in ("sim", "on", "off")][-1]
            return [["on"]] if last in ("sim", "off") else [["off"]]
        letters = c01.core_alphabet(w, w0) if depth > 1 else c01.full_alphabet(w, w0)
        if with_sims:
            letters = letters + sim_letters(w, w0)
        return letters
    return alphabet_of


# ---------------------------------------------------------------------------------------------- (ii) completeness
def perturbations(v):
    t = v[0]
    if t == "q":
        return [["q", v[1] * 2 if v[1] else 1.0, v[2]], ["q", v[1] * 0.5 if v[1] else 2.0, v[2]],
                ["q", v[1] * 4.5 if v[1] else 7.0, v[2]], ["q", v[1] * 0.2 if v[1] else 0.3, v[2]]]
    if t == "h":
        return [["h", [x + 1.0 for x in v[1]], v[2], v[3]]]
    if t == "tz":
        return [["tz", "Asia/Tokyo" if v[1] != "Asia/Tokyo" else "Europe/Paris"]]
    return []


CAT_ALTS = {"server_type": ["autoscaling", "on-premise", "serverless"],
            "resolution": ["480p (640 x 480)", "4K (3840 x 2160)"],
            "technology": ["php-symfony", "jvm-kotlin-spring"], "implementation_details": ["default", "aggressive_caching"]}


def run_completeness_task(task):
    fam, obj, attr = task["world"], task["obj"], task["attr"]
    w = W.family(fam)
    res = {"violations": [], "counters": {}, "outcome": "ok", "pairs": 0, "changed_pairs": 0}
    v = w["objects"][obj]["attrs"][attr]
    alts = perturbations(v)
    if v[0] == "c":
        alts = [["c", x] for x in CAT_ALTS.get(attr, []) if x != v[1]]
        if attr == "fixed_nb_of_instances":
            alts = []
    if v[0] == "e" and attr == "fixed_nb_of_instances" and w["objects"][obj]["attrs"].get("server_type", ["c", "on-premise"])[1] == "on-premise":
        alts = [["q", 50.0, "dimensionless"]]
    base = W.build(w, closure_only=True)
    base_snap = S.value_snapshot(base.system)
    changed = set()
    for alt in alts:
        try:
            m2 = W.build(W.apply_spec(w, ["set", obj, attr, alt]), closure_only=True)
        except Exception:  # noqa
            res["counters"]["perturbed_build_rejected"] = res["counters"].get("perturbed_build_rejected", 0) + 1
            continue
        for k, _, _ in S.diff(base_snap, S.value_snapshot(m2.system), empty_entries_neutral=True):
            changed.add(k)
    live = W.build(w)
    iv = getattr(live.objs[obj], attr)
    desc = set()
    for d in iv.all_descendants_with_id:
        h = S._current_holder(d)
        if h is not None and h[0] != "STALE":
            desc.add((h[0], h[1]))
    chain = set()
    for c in iv.attr_updates_chain:
        cont = c.modeling_obj_container
        if cont is not None:
            chain.add((S.unwrap(cont).name, c.attr_name_in_mod_obj_container))
    res["pairs"] = len(base_snap)
    res["changed_pairs"] = len(changed)
    byname = live.objs
    for (o, a) in sorted(changed):
        ca = S.class_attr(byname[o], a) if o in byname else f"?.{a}"
        inp = f"{w['objects'][obj]['cls']}.{attr}"
        if (o, a) not in desc:
            res["violations"].append({"sig": {"clause": "not-a-transitive-ancestor", "input": inp, "calculated": ca},
                                      "detail": {"input": [obj, attr], "calculated": [o, a]}})
        elif (o, a) not in chain:
            res["violations"].append({"sig": {"clause": "not-in-update-chain", "input": inp, "calculated": ca},
                                      "detail": {"input": [obj, attr], "calculated": [o, a]}})
    return res


# ---------------------------------------------------------------------------------------------- (iii) all small DAGs
class _Stub:
    def __init__(self):
        self.id = "stub"
        self.name = "stub"


def build_dag(n, parents, order):
    """Real ExplainableQuantity sums on a stub container. parents[i] subset of range(i). `order` = registration
    order of the nodes (decides the order of every direct_children_with_id list)."""
    from efootprint.abstract_modeling_classes.explainable_objects import ExplainableQuantity
    from efootprint.constants.units import u
    stub = _Stub()
    nodes = []
    for i in range(n):
        ps = parents[i]
        if not ps:
            v = ExplainableQuantity((i + 1) * u.dimensionless, f"n{i}")
        else:
            v = nodes[ps[0]]
            for p in ps[1:]:
                v = v + nodes[p]
            if len(ps) == 1:
                v = v + ExplainableQuantity(0 * u.dimensionless, "zero")
            v.set_label(f"n{i}")
        setattr(stub, f"n{i}", v)
        v.set_modeling_obj_container(stub, f"n{i}")
        nodes.append(v)
    # re-register in the requested order: detach all (reverse topological), re-attach in `order`
    if list(order) != list(range(n)):
        for i in range(n):
            nodes[i].set_modeling_obj_container(None, None)
        for i in order:
            nodes[i].set_modeling_obj_container(stub, f"n{i}")
    return nodes


def all_parent_sets(n):
    """Every edge subset of the topologically labelled complete DAG on n nodes."""
    per_node = []
    for i in range(n):
        subs = []
        for r in range(i + 1):
            subs += [list(c) for c in itertools.combinations(range(i), r)]
        per_node.append(subs)
    return itertools.product(*per_node)


def check_dag(n, parents, order):
    nodes = build_dag(n, parents, order)
    # reachability
    children = {i: [j for j in range(n) if i in parents[j]] for i in range(n)}
    bad = []
    for s in range(n):
        desc, stack = set(), [s]
        while stack:
            x = stack.pop()
            for c in children[x]:
                if c not in desc:
                    desc.add(c)
                    stack.append(c)
        chain = nodes[s].attr_updates_chain
        names = [c.attr_name_in_mod_obj_container for c in chain]
        idx = [int(x[1:]) for x in names]
        if sorted(idx) != sorted(desc):
            bad.append(("chain-not-exactly-descendants", s, idx))
            continue
        pos = {x: p for p, x in enumerate(idx)}
        for d in desc:
            for a in parents[d]:
                if a in desc and pos[a] > pos[d]:
                    bad.append(("dependent-before-its-ancestor", s, idx))
                    break
    return bad


def run_dag_task(task):
    n = task["n"]
    res = {"violations": [], "counters": {}, "outcome": "ok", "graphs": 0, "chains": 0}
    orders = [list(p) for p in itertools.permutations(range(n))] if task["orders"] == "all" else \
        [list(range(n)), list(range(n - 1, -1, -1))]
    for k, parents in enumerate(all_parent_sets(n)):
        if k % task["stride"] != task["offset"]:
            continue
        parents = [list(p) for p in parents]
        for order in orders:
            res["graphs"] += 1
            res["chains"] += n
            try:
                bad = check_dag(n, parents, order)
            except engine.TaskTimeout:
                raise
            except Exception as ex:  # noqa
                bad = [("exception:" + type(ex).__name__, -1, str(ex)[:100])]
            for clause, s, idx in bad[:1]:
                res["violations"].append({"sig": {"clause": clause, "nodes": str(n)},
                                          "detail": {"parents": parents, "order": order, "start": s, "chain": idx},
                                          "subtask": {"kind": "dag1", "n": n, "parents": parents, "order": order}})
    return res


def run_dag1(task):
    bad = check_dag(task["n"], task["parents"], task["order"])
    return {"outcome": "ok", "violations": [{"sig": {"clause": c, "nodes": str(task["n"])},
                                             "detail": {"start": s, "chain": idx}} for c, s, idx in bad[:1]]}


def run_task(task):
    kind = task.get("kind", "state")
    if kind == "state":
        return run_state_task(task)
    if kind == "complete":
        return run_completeness_task(task)
    if kind == "dag":
        return run_dag_task(task)
    if kind == "dag1":
        return run_dag1(task)
    raise ValueError(kind)


# ---------------------------------------------------------------------------------------------- main
TIERS = {
    "quick": {"state": [("W1", "default", 1, True, None), ("W2", "rev", 1, True, None), ("W3", "default", 1, True, None)],
              "complete": ["W1", "W2", "W3"], "dag": [(1, "all"), (2, "all"), (3, "all"), (4, "all"), (5, "all")]},
    "thorough": {"state": [("W1", "rev", 2, True, None), ("W2", "rev", 2, True, None), ("W3", "rev", 2, True, 20000),
                           ("W4", "default", 1, True, None)],
                 "complete": ["W1", "W2", "W3", "W4"],
                 "dag": [(1, "all"), (2, "all"), (3, "all"), (4, "all"), (5, "all"), (6, "fr")]},
}


def main(tier):
    prepare()
    cfg = TIERS[tier]
    if "W4" in cfg["complete"]:
        boot.all_classes()
    run = report.Run(PROP, tier)
    engine.start(run_task, warm=boot.warm_up)
    cov = {"states": 0, "transitions": 0, "parts": {}}
    exhaustive = True
    samples = []
    # (i)
    part = []
    for fam, sched, depth, sims, cap in cfg["state"]:
        w = W.family(fam)
        scheds = [{}, H.reversed_schedule(w)] if sched == "rev" else [{}]
        roots = [{"world": fam, "perms": p, "history": [], "kind": "state"} for p in scheds]
        # sims add toggles: allow one extra level for on, one for off
        st = engine.bfs(roots, state_alphabet(fam, sims, depth), depth + (2 if sims else 0), run, max_states=cap)
        cov["states"] += st["states"]
        cov["transitions"] += st["transitions"]
        if st["capped"]:
            exhaustive = False
        part.append({"world": fam, "schedules": len(scheds), "depth_edits": depth, "with_simulations_and_toggles": sims,
                     "states": st["states"], "transitions": st["transitions"], "levels": st["levels"],
                     "capped": st["capped"], "outcomes": st["outcomes"], "distinct_graph_digests": st["value_digests"]})
        samples += st["samples"][:2]
    cov["parts"]["state_monitor"] = part
    # (ii)
    tasks = []
    for fam in cfg["complete"]:
        w = W.family(fam)
        for n in W.reachable(w):
            for a, v in w["objects"][n]["attrs"].items():
                if v[0] in ("q", "h", "tz", "c", "e"):
                    tasks.append({"kind": "complete", "world": fam, "obj": n, "attr": a})
    results = engine.pmap(tasks)
    engine.check_results(results, run)
    pairs = changed = 0
    for t, r in zip(tasks, results):
        if r.get("_timeout"):
            run.violation({"clause": "timeout", "input": f"{t['obj']}.{t['attr']}"}, {"task": t, "size": 1})
            continue
        pairs += r["pairs"]
        changed += r["changed_pairs"]
        for v in r["violations"]:
            run.violation(v["sig"], {"task": t, "detail": v["detail"], "size": 1})
        for c, n in r["counters"].items():
            run.count(c, n)
    cov["parts"]["completeness"] = {"inputs": len(tasks), "input_attribute_pairs": pairs,
                                    "pairs_where_perturbation_changes_the_attribute": changed}
    cov["transitions"] += len(tasks)
    cov["states"] += len(tasks)
    samples.append({"completeness_input": tasks[0]})
    # (iii)
    tasks = []
    for n, orders in cfg["dag"]:
        stride = 1 if n <= 3 else (16 if n == 4 else 64 if n == 5 else 256)
        for off in range(stride):
            tasks.append({"kind": "dag", "n": n, "orders": orders, "stride": stride, "offset": off, "_timeout": 600})
    results = engine.pmap(tasks)
    engine.check_results(results, run)
    graphs = chains = 0
    for t, r in zip(tasks, results):
        if r.get("_timeout"):
            run.violation({"clause": "timeout", "nodes": str(t["n"])}, {"task": t, "size": t["n"]})
            continue
        graphs += r["graphs"]
        chains += r["chains"]
        for v in r["violations"]:
            run.violation(v["sig"], {"task": v["subtask"], "detail": v["detail"], "size": t["n"]})
    cov["parts"]["all_small_dags"] = {"graphs_x_orders": graphs, "chains_checked": chains,
                                      "sizes": [[n, o] for n, o in cfg["dag"]]}
    cov["transitions"] += chains
    cov["states"] += graphs
    samples.append({"dag": {"n": 3, "parents": [[], [0], [0, 1]], "order": [2, 0, 1]}})
    engine.stop()
    cov.update({"traces_validated_against_impl": cov["transitions"], "samples": samples[:8], "exhaustive": exhaustive,
                "distinct_outcomes": sum(p["distinct_graph_digests"] for p in part)})
    return run.finish(cov, assumptions=[
        "graph read through direct_ancestors_with_id / direct_children_with_id by object identity",
        "completeness perturbs each input once or twice (x2, x0.5, +1 per hour, other category) — a dependency that "
        "only shows for other values is not seen",
        "simulation states: only toggles follow a simulation"])


if __name__ == "__main__":
    try:
        sys.exit(main(sys.argv[1] if len(sys.argv) > 1 else "quick"))
    except engine.CrashError as e:
        print("HARNESS-ERROR", e)
        sys.exit(2)
