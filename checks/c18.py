"""C18 — a computed model is a fixed point and computing never alters inputs.

In every state of a depth-<=1 exploration of W1-W4: every single explicit recomputation request, every ordered pair of
requests on objects of different classes (including the reverse of the canonical order), the whole computation chain,
and the read-only operations (str, explain, to_json, system_to_json, aggregate views of System, plotting helpers that
need no display).  Oracle after every request: value snapshot unchanged (rel 1e-9), input snapshot physically
unchanged (rel 1e-12), links unchanged.  (The calculation graph is not compared: an explicit partial recomputation
legitimately re-creates the value objects of one object only; graph consistency after *edits* is C08's business.)
"""
import itertools
import json
import os
import sys
import tempfile

os.environ.setdefault("MPLBACKEND", "Agg")

from efmc import boot, engine, report, world as W, snap as S, hist as H
from checks import c01

PROP = "C18"


def prepare():
    boot.install_seams()


def snapshots(m):
    objs = [S.unwrap(o) for o in m.objs.values()]
    snap = {"value": S.value_snapshot(m.system), "input": S.input_snapshot(objs), "links": S.link_snapshot(objs)}
    # the values held by a what-if simulation are results too: reading (plotting the twins) must not alter them
    sim = getattr(m, "sim", None)
    snap["simulated"] = {("sim", i): S.canon(v) for i, v in enumerate(sim.recomputed_values)} if sim is not None else {}
    return snap


def compare(base, now):
    out = []
    d = S.diff(base["value"], now["value"])
    if d:
        out.append(("value-changed", d[0]))
    d = S.diff(base.get("simulated", {}), now.get("simulated", {}))
    if d:
        out.append(("simulated-value-changed", d[0]))
    d = S.plain_diff(base["input"], now["input"])
    if d:
        out.append(("input-changed", d[0]))
    d = S.plain_diff(base["links"], now["links"])
    if d:
        out.append(("links-changed", d[0]))
    return out


def do_reads(m, tmpdir, which):
    from efootprint.api_utils.system_to_json import system_to_json
    sysobj = m.system
    objs = S.system_objects(sysobj)
    if which == "str":
        for o in objs:
            str(o)
            repr(o)
            for a in o.calculated_attributes:
                v = getattr(o, a)
                str(v)
    elif which == "explain":
        for o in objs:
            for a in o.calculated_attributes:
                v = getattr(o, a)
                for x in (list(v.values()) if isinstance(v, dict) else [v]):
                    x.explain()
                    x.explain(pretty_print=False)
    elif which == "json":
        for o in objs:
            o.to_json(save_calculated_attributes=False)
        system_to_json(sysobj, save_calculated_attributes=False)
        try:
            system_to_json(sysobj, save_calculated_attributes=True, output_filepath=os.path.join(tmpdir, "s.json"))
        except Exception:  # noqa  (export of some builder values is C13's business)
            pass
    elif which == "aggregates":
        sysobj.fabrication_footprints
        sysobj.energy_footprints
        sysobj.total_fabrication_footprints
        sysobj.total_energy_footprints
        sysobj.fabrication_footprint_sum_over_period
        sysobj.energy_footprint_sum_over_period
        sysobj.total_fabrication_footprint_sum_over_period
        sysobj.total_energy_footprint_sum_over_period
        sysobj.servers, sysobj.storages, sysobj.networks, sysobj.usage_journeys, sysobj.all_linked_objects
    elif which == "plots":
        import matplotlib
        matplotlib.use("Agg")
        import matplotlib.pyplot as plt
        try:
            sysobj.plot_footprints_by_category_and_object(return_only_html=True)
        except Exception:  # noqa
            pass
        try:
            sysobj.plot_emission_diffs(filepath=os.path.join(tmpdir, "d.png"))
        except Exception:  # noqa
            pass
        n = 0
        for o in objs:
            for a in o.calculated_attributes:
                v = getattr(o, a)
                twinned = getattr(v, "simulation_twin", None) is not None      # recomputed by a what-if simulation
                if isinstance(v, S.ExplainableHourlyQuantities) and (n < 4 or (twinned and n < 16)):
                    n += 1
                    for kw in ({"filepath": os.path.join(tmpdir, f"p{n}.png")}, {"cumsum": True}):
                        try:
                            v.plot(**kw)
                        except Exception:  # noqa
                            pass
        plt.close("all")
        for o in objs[:3]:
            try:
                o.object_relationship_graph_to_file(filename=os.path.join(tmpdir, "g.html"))
            except Exception:  # noqa
                pass
        try:
            sysobj.total_footprint.calculus_graph_to_file(filename=os.path.join(tmpdir, "c.html"))
        except Exception:  # noqa
            pass


def run_task(task):
    w = H.world_of(task)
    m = W.build(w, perms=task.get("perms"))
    for e in task.get("history", []):
        try:
            W.apply_live(m, e)
            w = W.apply_spec(w, e)
        except Exception:  # noqa
            return {"outcome": "history-rejected", "violations": [], "counters": {}, "n": 0}
    boot.set_ranks(m.ranks)
    base = snapshots(m)
    res = {"outcome": "ok", "violations": [], "counters": {}, "n": 0}
    lc = engine.letter_class(task["history"][-1], H.world_of(task)) if task.get("history") else "build"
    with tempfile.TemporaryDirectory() as tmpdir:
        cwd = os.getcwd()
        os.chdir(tmpdir)
        try:
            for req in task["requests"]:
                desc = None
                try:
                    if req[0] == "recompute":
                        for n in req[1]:
                            S.unwrap(m.objs[n]).compute_calculated_attributes()
                        desc = "recompute " + " then ".join(w["objects"][n]["cls"] for n in req[1])
                    elif req[0] == "all":
                        W.apply_live(m, ["recompute_all"])
                        desc = "recompute whole chain"
                    elif req[0] == "read":
                        import contextlib
                        import io
                        with contextlib.redirect_stdout(io.StringIO()):   # pyvis prints the file names it writes
                            do_reads(m, tmpdir, req[1])
                        desc = "read:" + req[1]
                except Exception as ex:  # noqa
                    res["violations"].append({"sig": {"clause": "request-raises", "request": desc or str(req)[:60],
                                                      "exc": type(ex).__name__, "state": lc},
                                              "detail": {"exception": str(ex)[:200], "request": req}, "req": req})
                    break
                res["n"] += 1
                boot.set_ranks(m.ranks)
                diffs = compare(base, snapshots(m))
                if diffs:
                    k = diffs[0][1][0]
                    o = m.objs.get(k[0]) if isinstance(k, tuple) else None
                    where = S.class_attr(S.unwrap(o), k[1]) if o is not None and len(k) > 1 and isinstance(k[1], str) else str(k)[:40]
                    res["violations"].append({"sig": {"clause": diffs[0][0], "request": desc, "where": where, "state": lc},
                                              "detail": {"first_difference": [str(x)[:300] for x in diffs[0][1]], "request": req},
                                              "req": req})
                    break
        finally:
            os.chdir(cwd)
    res["vdigest"] = S.digest(base["value"], 8)
    return res


READS = ["str", "explain", "json", "aggregates", "plots"]


def requests_for(w, pairs):
    names = W.reachable(w)
    singles = [["recompute", [n]] for n in names]
    reqs = singles + [["all"]] + [["read", r] for r in READS]
    if pairs:
        ps = [["recompute", [a, b]] for a, b in itertools.permutations(names, 2)
              if w["objects"][a]["cls"] != w["objects"][b]["cls"]]
        reqs += ps
    return reqs


TIERS = {"quick": {"worlds": [("W1", 30, 4), ("W1f", 3, 1), ("W2", 20, 2), ("W3", 20, 2), ("W4", 6, 1)]},
         "thorough": {"worlds": [("W1", 200, 40), ("W1f", 20, 4), ("W1c", 60, 4), ("W2", 200, 20), ("W3", 200, 20),
                                 ("W4", 30, 4)]}}


def make_tasks(tier):
    tasks = []
    for fam, nstates, npair_states in TIERS[tier]["worlds"]:
        w0 = W.family(fam)
        if fam == "W4":
            letters = H.numeric_letters(w0, w0, specials=False)
        else:
            letters = c01.core_alphabet(w0, w0)
        # spread the chosen letters over the alphabet
        step = max(1, len(letters) // max(1, nstates))
        hists = [[]] + [[e] for e in letters[::step]][:nstates]
        for si, hist in enumerate(hists):
            w = H.fold_spec(w0, hist)
            reqs = requests_for(w, pairs=si < npair_states)
            chunk = 30 if fam != "W4" else 60
            for i in range(0, len(reqs), chunk):
                tasks.append({"world": fam, "perms": {}, "history": hist, "requests": reqs[i:i + chunk]})
    # states holding a what-if simulation (values switched back off): the read-only requests, twice each
    for fam, date in (("W1", "2025-01-01 00:00 UTC"), ("W2", "2025-01-01 00:00 UTC"), ("W3", "2025-01-01 00:00 UTC")):
        for change in (["set", "j1", "data_transferred", ["q", 300.0, "kilobyte"]],
                       ["set", "sv", "power", ["q", 350.0, "watt"]]):
            hist = [["sim", [change], date]]
            tasks.append({"world": fam, "perms": {}, "history": hist,
                          "requests": [["read", r] for r in READS] + [["read", r] for r in READS]})
    return tasks


def main(tier):
    prepare()
    boot.all_classes()
    run = report.Run(PROP, tier)
    engine.start(run_task, warm=boot.warm_up)
    tasks = make_tasks(tier)
    results = engine.pmap(tasks)
    engine.check_results(results, run)
    engine.stop()
    n, outcomes, digests = 0, {}, set()
    for t, r in zip(tasks, results):
        if r.get("_timeout"):
            run.violation({"clause": "timeout"}, {"task": t, "size": 1})
            continue
        n += r["n"]
        outcomes[r["outcome"]] = outcomes.get(r["outcome"], 0) + 1
        if r.get("vdigest"):
            digests.add(r["vdigest"])
        for v in r["violations"]:
            sub = dict(t, requests=[v["req"]])
            run.violation(v["sig"], {"task": sub, "detail": v["detail"], "size": len(t["history"]) + 1})
    states = len({json.dumps([t["world"], t["history"]]) for t in tasks})
    cov = {"states": states, "transitions": n, "traces_validated_against_impl": n,
           "samples": [{"world": tasks[0]["world"], "history": tasks[0]["history"], "requests": tasks[0]["requests"][:3]},
                       {"world": tasks[-1]["world"], "history": tasks[-1]["history"], "requests": tasks[-1]["requests"][:3]}],
           "exhaustive": True, "outcomes": outcomes, "distinct_outcomes": len(digests),
           "bounds": f"states: initial + depth-1 states per world {TIERS[tier]['worlds']} (world, #letters, #states with all "
                     f"ordered pairs); requests: every single object, whole chain, reads {READS}, ordered pairs of "
                     f"objects of different classes"}
    return run.finish(cov, assumptions=[
        "requests are applied one after the other on the same live model; the oracle is evaluated after each, so every "
        "request starts from a state verified equal to the initial one",
        "plot helpers run with the Agg backend into a temporary directory"])


if __name__ == "__main__":
    try:
        sys.exit(main(sys.argv[1] if len(sys.argv) > 1 else "quick"))
    except engine.CrashError as e:
        print("HARNESS-ERROR", e)
        sys.exit(2)
