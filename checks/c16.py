"""C16 — links between objects stay consistent under every kind of edit.

Bounded exhaustive exploration of link assignments, list assignments and *every* list mutator (present, absent,
duplicate, no-op and out-of-range arguments) on a universe with two systems.  Reference model = plain Python lists of
names (efmc.world.apply_spec).  After every letter:
 (a) the content of every list / link attribute equals the reference (if the reference itself raises IndexError /
     ValueError the implementation must raise too and nothing may change);
 (b) obj.modeling_obj_containers == the set of objects that reference it (recomputed from forward links over the
     whole universe) and the derived look-ups (jobs of a server, usage patterns of a journey / network / country,
     steps of a job, systems of anything) agree;
 (c) self_delete of a referenced object raises and changes nothing;
 (d) no object reports more than one system, in any state (also the one left by a refused letter).
An exception the reference does not raise is tolerated when the content agrees with the world before or after the
letter (it is counted in the evidence); any other content is a violation.
"""
import itertools
import json
import sys

from efmc import boot, engine, report, world as W, snap as S, hist as H

PROP = "C16"
FAM = "W16"


def prepare():
    boot.install_seams()


# ---------------------------------------------------------------------------------------------- observation
def forward_links(m):
    """{obj name: {attr: name | [names]}} read from the live objects."""
    out = {}
    for n, o in m.objs.items():
        o = S.unwrap(o)
        fw = {}
        for attr, val in list(o.__dict__.items()):
            if attr in S.SKIP_ATTRS:
                continue
            if isinstance(val, S.ContextualModelingObjectAttribute):
                fw[attr] = val._value.name
            elif isinstance(val, S.ListLinkedToModelingObj):
                fw[attr] = [S.unwrap(x).name for x in list.__iter__(val)]
            elif isinstance(val, S.ModelingObject):
                fw[attr] = val.name
        out[n] = fw
    return out


def spec_links(w):
    out = {}
    for n, o in w["objects"].items():
        fw = {}
        for a, v in o["attrs"].items():
            if v[0] == "link":
                fw[a] = v[1]
            elif v[0] == "list":
                fw[a] = list(v[1])
        out[n] = fw
    return out


def names(xs):
    return sorted(S.unwrap(x).name for x in xs)


def link_violations(m, fw):
    """Clauses (b) and (d) evaluated on the live model against its own forward links."""
    out = []
    referenced_by = {n: set() for n in m.objs}
    for src, d in fw.items():
        for a, t in d.items():
            for x in (t if isinstance(t, list) else [t]):
                if x in referenced_by:
                    referenced_by[x].add(src)
    # backward closure to systems
    systems_of = {}
    sysnames = [n for n, o in m.objs.items() if type(S.unwrap(o)).__name__ == "System"]

    def closure(root):
        seen, stack = set(), [root]
        while stack:
            x = stack.pop()
            if x in seen:
                continue
            seen.add(x)
            for t in fw.get(x, {}).values():
                stack.extend(t if isinstance(t, list) else [t])
        return seen
    for s in sysnames:
        for x in closure(s):
            systems_of.setdefault(x, set()).add(s)
    for n, o in m.objs.items():
        o = S.unwrap(o)
        cls = type(o).__name__
        try:
            got = set(names(o.modeling_obj_containers))
        except Exception as ex:  # noqa
            out.append(("containers-raises", cls, type(ex).__name__))
            continue
        if got != referenced_by[n]:
            out.append(("containers-differ-from-references", cls,
                        f"{n}: reported {sorted(got)} referenced by {sorted(referenced_by[n])}"))
        try:
            sysgot = names(o.systems)
        except Exception as ex:  # noqa
            out.append(("systems-raises", cls, f"{n}: {type(ex).__name__}: {str(ex)[:80]}"))
            sysgot = None
        if sysgot is not None:
            if len(sysgot) > 1:
                out.append(("object-in-two-systems", cls, f"{n}: {sysgot}"))
            if set(sysgot) != systems_of.get(n, set()) and cls != "System":
                out.append(("systems-differ-from-closure", cls, f"{n}: reported {sysgot} closure {sorted(systems_of.get(n, set()))}"))
        # derived look-ups
        try:
            if cls == "Server":
                want = sorted(s for s in referenced_by[n] if type(S.unwrap(m.objs[s])).__name__ == "Job")
                if names(o.jobs) != want:
                    out.append(("derived-lookup-wrong", "Server.jobs", f"{n}: {names(o.jobs)} vs {want}"))
            elif cls in ("UsageJourney", "Network", "Country"):
                want = sorted(referenced_by[n])
                if names(o.usage_patterns) != want:
                    out.append(("derived-lookup-wrong", f"{cls}.usage_patterns", f"{n}: {names(o.usage_patterns)} vs {want}"))
            elif cls == "Job":
                want = sorted(referenced_by[n])
                if names(o.usage_journey_steps) != want:
                    out.append(("derived-lookup-wrong", "Job.usage_journey_steps", f"{n}: {names(o.usage_journey_steps)} vs {want}"))
                ups = set()
                for st in referenced_by[n]:
                    for uj in referenced_by[st]:
                        ups |= referenced_by[uj]
                if set(names(o.usage_patterns)) != ups:
                    out.append(("derived-lookup-wrong", "Job.usage_patterns", f"{n}: {names(o.usage_patterns)} vs {sorted(ups)}"))
            elif cls == "UsageJourneyStep":
                want = sorted(referenced_by[n])
                if names(o.usage_journeys) != want:
                    out.append(("derived-lookup-wrong", "UsageJourneyStep.usage_journeys", f"{n}: {names(o.usage_journeys)} vs {want}"))
            elif cls == "Storage":
                srv = o.server
                want = sorted(referenced_by[n])
                got1 = [] if srv is None else [S.unwrap(srv).name]
                if got1 != want:
                    out.append(("derived-lookup-wrong", "Storage.server", f"{n}: {got1} vs {want}"))
        except Exception as ex:  # noqa
            if not (cls == "Storage" and len(referenced_by[n]) > 1):
                out.append(("derived-lookup-raises", cls, f"{n}: {type(ex).__name__}: {str(ex)[:80]}"))
    return out


_refused_cache = {}


def target_model_is_refused(w2, perms):
    """Does a fresh build of the world the letter should lead to raise?"""
    import json as _json
    k = _json.dumps(w2["objects"], sort_keys=True)
    if k not in _refused_cache:
        try:
            W.build(w2, perms=perms)
            _refused_cache[k] = False
        except Exception:  # noqa
            _refused_cache[k] = True
        if len(_refused_cache) > 3000:
            _refused_cache.clear()
    return _refused_cache[k]


def refused_on_fresh_live(w, perms, letter):
    """Is the same letter also refused by a freshly built live universe with the same content? (then the refusal is a
    domain refusal of the library, not an artefact of the history that led to the state)"""
    try:
        m2 = W.build(w, perms=perms)
    except Exception:  # noqa
        return True
    try:
        W.apply_live(m2, letter)
        return False
    except Exception:  # noqa
        return True


def after_noop(task):
    """Was the previous letter of the history one that changes nothing? (structural detail for signatures)"""
    h = task.get("history", [])
    if not h:
        return False
    e = h[-1]
    return e[0] == "lop" and (e[3] in ("getslice", "copy") or (e[3] in ("extend", "iadd") and e[4] == [[]])
                              or (e[3] == "imul" and e[4] == [1]) or (e[3] == "setslice" and e[4][2] == [] and e[4][0] == e[4][1])
                              or (e[3] == "delslice" and e[4][0] == e[4][1]))


def content_equal(fw, w):
    sp = spec_links(w)
    for n in sp:
        if fw.get(n, {}) != sp[n]:
            return False, (n, fw.get(n), sp[n])
    return True, None


# ---------------------------------------------------------------------------------------------- task
def run_task(task):
    w = H.world_of(task)
    m = W.build(w, perms=task.get("perms"))
    for e, outcome in zip(task.get("history", []), task.get("history_outcomes", [])):
        try:
            W.apply_live(m, e) if e[0] != "delete" else S.unwrap(m.objs[e[1]]).self_delete()
        except Exception:  # noqa
            pass
        if outcome == "applied":
            try:
                w = W.apply_spec(w, e)
            except W.SpecRaise:
                pass
    letter = task.get("letter")
    res = {"violations": [], "counters": {}}
    lc = engine.letter_class(letter, w) if letter is None or letter[0] != "delete" else \
        "delete " + w["objects"][letter[1]]["cls"]
    args_kind = ""
    if letter is not None and letter[0] == "lop":
        args_kind = task.get("arg_kind", "")
    spec_raises = None
    w2 = w
    live_raises = None
    before = forward_links(m)
    if letter is not None:
        if letter[0] == "delete":
            referenced = any(letter[1] in (t if isinstance(t, list) else [t]) for d in before.values() for t in d.values())
            try:
                S.unwrap(m.objs[letter[1]]).self_delete()
            except Exception as ex:  # noqa
                live_raises = type(ex).__name__
            boot.set_ranks(m.ranks)
            after = forward_links(m)
            if referenced:
                if live_raises is None:
                    res["violations"].append({"sig": {"clause": "delete-of-referenced-object-accepted", "letter": lc},
                                              "detail": {"object": letter[1]}})
                elif after != before:
                    res["violations"].append({"sig": {"clause": "refused-delete-changed-links", "letter": lc},
                                              "detail": {"object": letter[1]}})
                res["outcome"] = "delete-refused" if live_raises else "delete-accepted"
                res["applied"] = "unchanged"
                w2 = w
            else:
                res["outcome"] = "delete-unreferenced:" + (live_raises or "ok")
                res["applied"] = "unchanged"
                res["key"] = None      # the object is gone from the model: do not explore further
                if live_raises is not None:
                    res["violations"].append({"sig": {"clause": "delete-of-unreferenced-object-refused", "letter": lc,
                                                      "exc": live_raises}, "detail": {"object": letter[1]}})
                else:
                    # the deleted object is gone: nobody may still report it as a user, and what it referenced must
                    # be deletable / consistent
                    gone = m.objs.pop(letter[1])
                    fw2 = forward_links(m)
                    seen = set()
                    for clause, where, detail in link_violations(m, fw2):
                        if clause == "object-in-two-systems" or (clause, where) in seen:
                            continue
                        seen.add((clause, where))
                        res["violations"].append({"sig": {"clause": "after-delete:" + clause, "where": where, "letter": lc},
                                                  "detail": {"what": detail, "deleted": letter[1]}})
                return res
        else:
            try:
                w2 = W.apply_spec(w, letter)
            except W.SpecRaise as ex:
                spec_raises = str(ex)
            try:
                W.apply_live(m, letter)
            except Exception as ex:  # noqa
                live_raises = type(ex).__name__ + ": " + str(ex)[:100]
            boot.set_ranks(m.ranks)
    fw = forward_links(m)
    applied = "applied"
    if letter is not None and letter[0] != "delete":
        if spec_raises is not None:
            applied = "unchanged"
            if live_raises is None:
                res["violations"].append({"sig": {"clause": "reference-raises-but-implementation-accepts", "letter": lc,
                                                  "ref": spec_raises, "args": args_kind}, "detail": {"letter": letter}})
            ok, where = content_equal(fw, w)
            if not ok:
                res["violations"].append({"sig": {"clause": "refused-operation-changed-content", "letter": lc,
                                                  "ref": spec_raises, "args": args_kind},
                                          "detail": {"where": where}})
            res["outcome"] = "both-raise" if live_raises else "only-reference-raises"
        elif live_raises is None:
            ok, where = content_equal(fw, w2)
            if not ok:
                res["violations"].append({"sig": {"clause": "content-differs-from-python-list", "letter": lc, "args": args_kind},
                                          "detail": {"where": where, "letter": letter}})
            res["outcome"] = "accepted"
        else:
            ok_new, _ = content_equal(fw, w2)
            ok_old, where = content_equal(fw, w)
            res["counters"][f"implementation_raises_only:{lc}:{args_kind}:{live_raises.split(':')[0]}:content={'new' if ok_new else 'old' if ok_old else 'neither'}"] = 1
            if ok_new:
                applied = "applied"
            elif ok_old:
                applied = "unchanged"
                # the operation was not performed although a Python list would have performed it: only acceptable when
                # the target model itself is refused by the library (capacity, storage shared by two servers, ...)
                if not target_model_is_refused(w2, task.get("perms")) and not refused_on_fresh_live(w, task.get("perms"), letter):
                    res["violations"].append({"sig": {"clause": "operation-refused-although-target-model-is-valid",
                                                      "letter": lc, "args": args_kind, "exc": live_raises.split(":")[0],
                                                      "after_noop": str(after_noop(task))},
                                              "detail": {"exception": live_raises, "letter": letter}})
            else:
                applied = "neither"
                res["violations"].append({"sig": {"clause": "exception-left-content-neither-old-nor-new", "letter": lc,
                                                  "args": args_kind, "exc": live_raises.split(":")[0]},
                                          "detail": {"where": where, "exception": live_raises}})
            res["outcome"] = "implementation-raises-only"
    elif letter is None:
        res["outcome"] = "built"
    seen = set()
    for clause, where, detail in link_violations(m, fw):
        sig = {"clause": clause, "where": where, "letter": lc, "after": res["outcome"]}
        k = json.dumps(sig, sort_keys=True)
        if k not in seen:
            seen.add(k)
            res["violations"].append({"sig": sig, "detail": {"what": detail}})
    res["applied"] = applied
    wk = w2 if applied == "applied" else w
    res["vdigest"] = S.plain_digest({k: json.dumps(v, sort_keys=True) for k, v in fw.items()})
    res["key"] = None if applied == "neither" else json.dumps([task.get("perms"), res["vdigest"]])
    res["expand"] = not res["violations"]
    return res


# ---------------------------------------------------------------------------------------------- alphabet
MENUS = {("UsageJourneyStep", "jobs"): ["j1", "j2", "j_x"], ("UsageJourney", "uj_steps"): ["s1", "s2", "s3"],
         ("UsagePattern", "devices"): ["d", "d_b", "d_x"], ("System", "usage_patterns"): ["up", "up2", "up_x"]}
TARGETS = {"s2": "jobs", "uj": "uj_steps", "up": "devices", "sys": "usage_patterns"}


def lists_over(menu, maxlen):
    out = []
    for L in range(0, maxlen + 1):
        out += [list(p) for p in itertools.product(menu, repeat=L)]
    return out


def mutators(cur, menu):
    """(op, args, kind-of-argument) for every mutator, with in-range / out-of-range / absent / duplicate / no-op args."""
    present = cur[0] if cur else None
    absent = next((x for x in menu if x not in cur), None)
    n = len(cur)
    out = []
    for x, kind in ((absent, "absent"), (present, "duplicate")):
        if x is None:
            continue
        out += [("append", [x], kind), ("insert", [0, x], kind + "@0"), ("insert", [n + 5, x], kind + "@beyond"),
                ("extend", [[x]], kind), ("iadd", [[x]], kind), ("setitem", [0, x], kind + "@0"),
                ("setitem", [n + 3, x], kind + "@out-of-range"), ("setslice", [0, 1, [x]], kind)]
    if absent is not None and present is not None:
        out += [("extend", [[absent, present]], "two"), ("remove", [absent], "absent")]
    if present is not None:
        out += [("remove", [present], "present"), ("remove_wrapper", [0], "present")]
    out += [("extend", [[]], "empty"), ("iadd", [[]], "empty"), ("imul", [0], "0"), ("imul", [1], "1"), ("imul", [2], "2"),
            ("imul", [3], "3"), ("iadd_self", [], "self"),
            ("pop", [], "last"), ("pop", [0], "first"), ("pop", [n + 2], "out-of-range"),
            ("delitem", [0], "first"), ("delitem", [-1], "last"), ("delitem", [n + 2], "out-of-range"),
            ("delslice", [0, 1], "first"), ("delslice", [0, 0], "empty"), ("clear", [], ""),
            ("getslice", [0, 2], "read"), ("copy", [], "read"), ("setslice", [0, 0, []], "empty")]
    return out


def alphabet_of_world(w, tier, depth):
    letters = []
    maxlen = 2 if tier == "quick" or depth > 1 else 3
    for obj, attr in TARGETS.items():
        cls = w["objects"][obj]["cls"]
        menu = MENUS[(cls, attr)]
        cur = list(w["objects"][obj]["attrs"][attr][1])
        for L in lists_over(menu, maxlen):
            letters.append((["list", obj, attr, L], "assign"))
        for op, args, kind in mutators(cur, menu):
            letters.append((["lop", obj, attr, op, args], kind))
    # links: every link to every type-correct target of the universe (incl. the other system's objects)
    for n in ("j1", "sv", "up", "up2", "up_x", "j_x"):
        o = w["objects"][n]
        for a, v in o["attrs"].items():
            if v[0] == "link" and a in H.LINK_TARGET:
                for t in H.universe(w, H.LINK_TARGET[a]):
                    if w["objects"][t]["cls"] == w["objects"][v[1]]["cls"]:
                        letters.append((["link", n, a, t], "same" if t == v[1] else "other"))
    # one grouped update re-pointing TWO holders to the same new target (both new wrappers are pending at once)
    for a, b, attr in (("j1", "j2", "server"), ("up", "up2", "network"), ("up", "up2", "country"),
                       ("up", "up2", "usage_journey")):
        if a in w["objects"] and b in w["objects"]:
            va, vb = w["objects"][a]["attrs"][attr], w["objects"][b]["attrs"][attr]
            for t in H.universe(w, H.LINK_TARGET[attr]):
                if t not in (va[1], vb[1]) and w["objects"][t]["cls"] == w["objects"][va[1]]["cls"]:
                    letters.append((["multi", [["link", a, attr, t], ["link", b, attr, t]]], "two-holders-same-target"))
                    break
    for n in ("j3", "j1", "s3", "s1", "uj_b", "uj", "d_b", "sv_b", "st_c", "up"):
        letters.append((["delete", n], ""))
    return letters


def make_alphabet(tier):
    def alphabet_of(node, info, depth):
        w = W.family(FAM)
        for e, oc in zip(node["history"], node.get("history_outcomes", [])):
            if oc == "applied":
                try:
                    w = W.apply_spec(w, e)
                except W.SpecRaise:
                    pass
        return alphabet_of_world(w, tier, depth)
    return alphabet_of


def explore(tier, depth, cap, run, scheds):
    """BFS with per-letter 'applied' bookkeeping (a letter that raised may or may not have changed the content)."""
    seen = set()
    stats = {"states": 0, "transitions": 0, "levels": [], "outcomes": {}, "capped": None, "digests": set(), "samples": []}
    alph = make_alphabet(tier)
    nodes = [{"world": FAM, "perms": p, "history": [], "history_outcomes": []} for p in scheds]
    tasks = [dict(n, letter=None) for n in nodes]
    results = engine.pmap(tasks)
    engine.check_results(results, run)
    frontier = []
    for t, r in zip(tasks, results):
        absorb(t, r, run, stats)
        if r.get("key") and r["key"] not in seen:
            seen.add(r["key"])
            frontier.append(t)
    for d in range(1, depth + 1):
        tasks = []
        for node in frontier:
            for letter, kind in alph(node, None, d):
                tasks.append({"world": FAM, "perms": node["perms"], "history": node["history"],
                              "history_outcomes": node["history_outcomes"], "letter": letter, "arg_kind": kind})
        if cap is not None and stats["transitions"] + len(tasks) > cap:
            stats["capped"] = {"at_depth": d, "cap": cap, "would_be": stats["transitions"] + len(tasks)}
            tasks = tasks[:max(0, cap - stats["transitions"])]
        if not tasks:
            break
        results = engine.pmap(tasks)
        engine.check_results(results, run)
        frontier = []
        for t, r in zip(tasks, results):
            stats["transitions"] += 1
            absorb(t, r, run, stats)
            if r.get("_timeout"):
                continue
            k = r.get("key")
            if k and k not in seen and r.get("expand", True):
                seen.add(k)
                frontier.append({"world": FAM, "perms": t["perms"], "history": t["history"] + [t["letter"]],
                                 "history_outcomes": t["history_outcomes"] + [r.get("applied", "unchanged")]})
        stats["levels"].append({"depth": d, "transitions": len(tasks), "new_states": len(frontier)})
    stats["states"] = len(seen)
    return stats


def absorb(t, r, run, stats):
    if r.get("_timeout"):
        run.violation({"clause": "timeout", "letter": engine.letter_class(t.get("letter"))},
                      {"task": t, "size": len(t["history"]) + 1})
        return
    stats["outcomes"][r["outcome"]] = stats["outcomes"].get(r["outcome"], 0) + 1
    if r.get("vdigest"):
        stats["digests"].add(r["vdigest"])
    for c, n in r.get("counters", {}).items():
        run.count(c, n)
    for v in r["violations"]:
        run.violation(v["sig"], {"task": t, "detail": v["detail"], "size": len(t["history"]) + 1})
    if t.get("letter") is not None and len(stats["samples"]) < 6 and r["outcome"] != "accepted":
        stats["samples"].append({"history": t["history"], "letter": t["letter"], "outcome": r["outcome"]})


def deletion_scenarios():
    """Make an object unreferenced (and give its own lists duplicates / shared elements), then delete it."""
    out = []
    for lst_ in (["s3", "s3"], ["s3", "s1"], ["s1", "s3", "s1"], []):
        out.append(([["list", "uj_b", "uj_steps", lst_]], ["delete", "uj_b"]))
    for lst_ in (["j3", "j3"], ["j1", "j3", "j1"], ["j2"]):
        out.append(([["list", "uj_b", "uj_steps", []], ["list", "s3", "jobs", lst_]], ["delete", "s3"]))
    out.append(([["link", "up_x", "usage_journey", "uj_b"], ["lop", "uj_x", "uj_steps", "append", ["s_x"]]], ["delete", "uj_x"]))
    out.append(([["list", "s2", "jobs", ["j2"]], ["list", "s1", "jobs", []]], ["delete", "j1"]))
    out.append(([["list", "up", "devices", ["d", "d"]], ["list", "up2", "devices", ["d_b"]], ["list", "up", "devices", ["d_b"]]], ["delete", "d"]))
    return out


TIERS = {"quick": {"depth": 2, "cap": 2400, "scheds": "default"}, "thorough": {"depth": 3, "cap": 60000, "scheds": "rev"}}


def main(tier):
    prepare()
    cfg = TIERS[tier]
    run = report.Run(PROP, tier)
    engine.start(run_task, warm=boot.warm_up)
    w = W.family(FAM)
    scheds = [{}, H.reversed_schedule(w)] if cfg["scheds"] == "rev" else [{}]
    st = explore(tier, cfg["depth"], cfg["cap"], run, scheds)
    tasks = [{"world": FAM, "perms": p, "history": h, "history_outcomes": ["applied"] * len(h), "letter": l, "arg_kind": "scenario"}
             for p in scheds for h, l in deletion_scenarios()]
    results = engine.pmap(tasks)
    engine.check_results(results, run)
    for t, r in zip(tasks, results):
        st["transitions"] += len(t["history"]) + 1
        absorb(t, r, run, st)
    engine.stop()
    cov = {"states": st["states"], "transitions": st["transitions"], "traces_validated_against_impl": st["transitions"],
           "samples": st["samples"] or [{"letter": ["lop", "s2", "jobs", "append", ["j_x"]]}], "exhaustive": st["capped"] is None,
           "levels": st["levels"], "capped": st["capped"], "outcomes": st["outcomes"], "distinct_outcomes": len(st["digests"]),
           "bounds": f"universe W16 (W1 + second system), depth {cfg['depth']}, schedules {cfg['scheds']}, "
                     f"list menus of 3 objects (assignment lists of length <= 2-3), every mutator with "
                     f"present/absent/duplicate/no-op/out-of-range arguments, links to every type-correct target, self_delete"}
    return run.finish(cov, assumptions=[
        "reference model = Python list semantics on names (efmc.world.list_op_spec)",
        "an implementation-only exception is tolerated when the content equals the world before or after the letter"])


if __name__ == "__main__":
    try:
        sys.exit(main(sys.argv[1] if len(sys.argv) > 1 else "quick"))
    except engine.CrashError as e:
        print("HARNESS-ERROR", e)
        sys.exit(2)
