"""C03 — usage volumes are conserved from journey starts down to job load.

Bounded exhaustive enumeration of tiny W0-shaped models (one usage pattern in UTC, optionally a second one) over
start series x journey shapes x job placement x request duration x gap between patterns; every model is built
with the real library and compared with a boring reference model on dict[hour -> float]:

* occurrences of a job in a usage pattern = journey starts shifted by floor(sum of preceding step time, in hours),
  one copy per appearance of the job in the journey (hour by hour, and in total: sum starts x multiplicity);
* data transferred / stored: total = occurrences x per-request amount; every occurrence's amount lies within
  [start, start + ceil(request duration in hours)) (cumulative-flow bounds — how the amount is spread inside
  that window is NOT demanded, the statement only fixes the total);
* average occurrences: total = occurrences x request duration in hours, same window;
* journeys in parallel: total = starts x journey duration in hours, same window; device energy = journeys in
  parallel x sum of device powers x 1 h (hour by hour) ;
* server RAM / compute need = sum over jobs of (average occurrences across patterns x need) (hour by hour);
* *_across_usage_patterns = sum of the per-pattern entries (hour by hour), dict keys = the patterns using the job.

EMPTY counts as zero here (a 0-duration journey legitimately yields an empty series), and an hour absent from a
series counts as zero.  A model whose construction raises is counted as ``rejected`` (C04 decides about it).
"""
import calendar
import hashlib
import itertools
import json
import math
import sys
import time
from datetime import datetime, timedelta
from fractions import Fraction

from efmc import boot, engine, report, world as W, snap as S

PROP = "C03"
RTOL, ATOL = 1e-9, 1e-12
FMT = "%Y-%m-%d %H:%M"
GROUP_TIMEOUT = 1500

# ------------------------------------------------------------------------------------------------ the space
ALPHABET = [0, 1, 3]
WORDS = [list(x) for n in (1, 2, 3, 4) for x in itertools.product(ALPHABET, repeat=n)]          # 120 words
WORD_START = "2025-01-01 00:00"
LONG1 = {"starts": [1, 2, 0, 3, 5, 1, 0, 0, 7], "start": "2024-12-31 21:00"}                   # crosses a year
LONG2 = {"starts": [2, 0, 0.1, 0, 0, 0, 0, 2.5, 1, 0, 0, 0, 0, 0, 0, 0, 4, 3, 0, 0, 0, 1, 0, 0, 7, 0.3, 0, 0, 0, 5],
         "start": "2024-02-28 17:00"}                                                            # 30 h, leap day
SERIES = [{"starts": w, "start": WORD_START} for w in WORDS] + [LONG1, LONG2]                    # 122
STEP_MIN = [0, 1, 59, 60, 61, 125]
JOURNEYS = [list(x) for n in (1, 2, 3) for x in itertools.product(STEP_MIN, repeat=n)]          # 258
PLACES = ["first", "last", "both", "twice"]
RD = {"0.5s": (0.5, "second"), "1s": (1, "second"), "30min": (30, "minute"), "60min": (60, "minute"),
      "61min": (61, "minute"), "90min": (90, "minute"), "120min": (120, "minute"), "150min": (150, "minute"),
      "185min": (185, "minute"), "250min": (250, "minute")}      # events lasting 3 and 4 full hours + a rest
RDS = list(RD)
GAPS = ["none", "overlap", "disjoint"]
FULL_PRODUCT = len(SERIES) * len(JOURNEYS) * len(PLACES) * len(RDS) * len(GAPS)

TO_MIN = {"second": Fraction(1, 60), "minute": Fraction(1), "hour": Fraction(60)}


def appearances(n_steps, place):
    """How many times j1 is listed in each step."""
    a = [0] * n_steps
    if place == "first":
        a[0] = 1
    elif place == "last":
        a[-1] = 1
    elif place == "both":
        a[0] = 1
        a[-1] = 1          # one step: first and last step coincide -> a single appearance
    elif place == "twice":
        a[n_steps // 2] = 2
    else:
        raise ValueError(place)
    return a


def cfg_key(c):
    return json.dumps([c["starts"], c["start"], c["steps"], appearances(len(c["steps"]), c["place"]), c["rd"],
                       c["gap"]])


def shift_start(start, hours):
    return (datetime.strptime(start, FMT) + timedelta(hours=hours)).strftime(FMT)


def make_world(c):
    """W0 modified: country in UTC, two devices, two jobs on the server (j1 = the enumerated one, j2 fixed in
    the last step), journey/steps/placement/request duration from the configuration, optional second pattern."""
    w = W.W0()
    o = w["objects"]
    o["c"]["attrs"]["timezone"] = ["tz", "UTC"]
    # storage is C04's business: keep everything for 5 years so that no expiry arithmetic is involved
    o["st"]["attrs"]["data_storage_duration"] = W.Q(5, "year")
    rd = RD[c["rd"]]
    o["j1"]["attrs"].update(request_duration=W.Q(*rd), data_transferred=W.Q(0.3, "megabyte"),
                            data_stored=W.Q(33.3, "kilobyte"), ram_needed=W.Q(50, "megabyte"),
                            compute_needed=W.Q(0.1, "cpu_core"))
    W.add(w, "j2", "Job", server=W.link("sv"), request_duration=W.Q(61, "minute"),
          data_transferred=W.Q(150, "kilobyte"), data_stored=W.Q(100, "kilobyte"), ram_needed=W.Q(30, "megabyte"),
          compute_needed=W.Q(0.3, "cpu_core"))
    W.add(w, "d_b", "Device", power=W.Q(10, "watt"))
    steps = c["steps"]
    app = appearances(len(steps), c["place"])
    names = []
    for i, (mins, k) in enumerate(zip(steps, app)):
        jobs = ["j1"] * k + (["j2"] if i == len(steps) - 1 else [])
        n = f"s{i + 1}"
        names.append(n)
        o[n] = {"cls": "UsageJourneyStep", "attrs": {"user_time_spent": W.Q(mins, "minute"), "jobs": W.lst(*jobs)}}
    o["uj"]["attrs"]["uj_steps"] = W.lst(*names)
    o["up"]["attrs"]["devices"] = W.lst("d", "d_b")
    o["up"]["attrs"]["hourly_usage_journey_starts"] = W.H(c["starts"], c["start"])
    ups = ["up"]
    if c["gap"] == "overlap":
        # second pattern on the SAME journey, window starting one hour after the first one's start
        W._up(w, "up2", "uj", "nw", "c", ["d"], [2, 0, 1], shift_start(c["start"], 1))
        ups.append("up2")
    elif c["gap"] == "disjoint":
        # second pattern 30 hours EARLIER, on its own journey = a 61-minute job-less step + the same steps
        o["sx"] = {"cls": "UsageJourneyStep", "attrs": {"user_time_spent": W.Q(61, "minute"), "jobs": W.lst()}}
        o["uj2"] = {"cls": "UsageJourney", "attrs": {"uj_steps": W.lst("sx", *names)}}
        W._up(w, "up2", "uj2", "nw", "c", ["d_b"], [1, 3], shift_start(c["start"], -30))
        ups.append("up2")
    elif c["gap"] != "none":
        raise ValueError(c["gap"])
    o["sys"]["attrs"]["usage_patterns"] = W.lst(*ups)
    return w


# ------------------------------------------------------------------------------------------------ reference model
def minutes_of(v):
    return Fraction(v[1]).limit_denominator(10 ** 6) * TO_MIN[v[2]]


def hour_of(start):
    return calendar.timegm(datetime.strptime(start, FMT).timetuple()) // 3600


def base_amount(v):
    f, _ = S.base_factor(v[2])
    return float(v[1]) * f


def add_into(d, other, shift=0, factor=1.0):
    for h, x in other.items():
        d[h + shift] = d.get(h + shift, 0.0) + x * factor


def reference(w):
    """The reference model: everything as dict[hour -> float] (hours since the epoch, UTC), from the inputs only."""
    o = w["objects"]
    ups = o[w["system"]]["attrs"]["usage_patterns"][1]
    ref = {"ups": ups, "starts": {}, "dur_h": {}, "occ": {}, "mult": {}, "power": {}, "jobs": {}, "shifts": {}}
    for p in ups:
        a = o[p]["attrs"]
        hv = a["hourly_usage_journey_starts"]
        h0 = hour_of(hv[2])
        starts = {h0 + i: float(v) for i, v in enumerate(hv[1])}
        ref["starts"][p] = starts
        prefix = Fraction(0)
        for s in o[a["usage_journey"][1]]["attrs"]["uj_steps"][1]:
            for j in o[s]["attrs"]["jobs"][1]:
                occ = ref["occ"].setdefault(j, {}).setdefault(p, {})
                sh = math.floor(prefix / 60)
                add_into(occ, starts, shift=sh)
                ref["mult"].setdefault(j, {})[p] = ref["mult"].get(j, {}).get(p, 0) + 1
                ref["shifts"].setdefault(j, {}).setdefault(p, []).append(sh)
            prefix += minutes_of(o[s]["attrs"]["user_time_spent"])
        ref["dur_h"][p] = prefix / 60
        ref["power"][p] = sum(base_amount(o[d]["attrs"]["power"]) for d in a["devices"][1])
    for j in ref["occ"]:
        a = o[j]["attrs"]
        ref["jobs"][j] = {"d_h": minutes_of(a["request_duration"]) / 60, "server": a["server"][1],
                          "data_transferred": base_amount(a["data_transferred"]),
                          "data_stored": base_amount(a["data_stored"]),
                          "ram": base_amount(a["ram_needed"]), "compute": base_amount(a["compute_needed"])}
    return ref


# ------------------------------------------------------------------------------------------------ observation
class BadSeries(Exception):
    pass


def obs(v):
    """Library value -> (dict[hour -> float] in base units, kind). EMPTY -> {}."""
    c = S.canon(v)
    if c[0] == "E":
        return {}
    if c[0] != "H":
        raise BadSeries(f"not an hourly value: {c[0]}")
    out = {}
    for ns, x in zip(c[3].tolist(), c[4].tolist()):
        if ns % 3_600_000_000_000:
            raise BadSeries("timestamp not on the hour")
        h = ns // 3_600_000_000_000
        if h in out:
            raise BadSeries("duplicated hour in index")
        if x != x:
            raise BadSeries("NaN in series")
        out[h] = x
    return out


def tol(*xs):
    return ATOL + RTOL * max([abs(x) for x in xs] + [0.0])


def series_diff(a, b):
    """First hour at which two dict series differ (missing = 0), or None."""
    for h in sorted(set(a) | set(b)):
        x, y = a.get(h, 0.0), b.get(h, 0.0)
        if abs(x - y) > tol(x, y):
            return h, x, y
    return None


def total(d):
    return math.fsum(d.values())


def window_violation(observed, occ, amount, n):
    """Cumulative-flow bounds: every occurrence at hour t delivers `amount` (>= 0) inside hours [t, t+n).
    Returns a description of the first hour at which no such distribution can exist, or None."""
    hours = set(observed) | set(occ)
    if n > 0:
        hours |= {t + n - 1 for t in occ}
    hours = sorted(hours)
    if not hours:
        return None
    scale = abs(amount) * max([abs(x) for x in occ.values()] + [0.0]) * max(1, len(occ))
    eps = ATOL + RTOL * scale
    cum = started = ended = 0.0
    for h in range(hours[0], hours[-1] + 1):
        x = observed.get(h, 0.0)
        if x < -eps:
            return {"hour": h, "why": "negative value", "value": x}
        cum += x
        started += occ.get(h, 0.0) * amount
        ended += occ.get(h - n + 1, 0.0) * amount if n > 0 else 0.0
        if cum > started + eps:
            return {"hour": h, "why": "more delivered than started so far (volume before its occurrence)",
                    "cumulative": cum, "upper": started}
        if n > 0 and cum < ended - eps:
            return {"hour": h, "why": "less delivered than what must be finished by this hour "
                                      "(volume after start + ceil(duration))", "cumulative": cum, "lower": ended}
    return None


def hname(h):
    return (datetime(1970, 1, 1) + timedelta(hours=h)).strftime("%Y-%m-%d %H")


def render_series(d, n=8):
    ks = sorted(d)
    return ", ".join(f"{hname(h)}={d[h]:.10g}" for h in ks[:n]) + ("" if len(ks) <= n else f" …(+{len(ks) - n})")


def dur_kind(d_h):
    if d_h == 0:
        return "zero"
    if d_h < 1:
        return "sub-hour"
    if d_h == 1:
        return "one-hour"
    return "whole-multi-hour" if d_h.denominator == 1 else "fractional-multi-hour"


# ------------------------------------------------------------------------------------------------ one model
def check_model(c):
    """Build the model and evaluate every clause. Returns (outcome, violations, n_predictions, digest)."""
    w = make_world(c)
    ref = reference(w)
    try:
        m = W.build(w)
    except Exception as ex:  # noqa — the construction itself is refused: C04's business, counted
        return "rejected:" + type(ex).__name__ + ":" + str(ex)[:60], [], 0, None
    viol, npred = [], 0
    seen = {}

    def bad(clause, attr, trigger, **detail):
        viol.append({"sig": {"clause": clause, "attr": attr, "trigger": trigger}, "detail": detail})

    def get(objname, attr, key=None):
        v = getattr(m.objs[objname], attr)
        if key is not None:
            v = v[m.objs[key]]
        d = obs(v)
        seen[(objname, attr, key)] = d
        return d

    gap = c["gap"]
    try:
        # ---------------------------------------------------------------- usage patterns
        par = {}
        for p in ref["ups"]:
            jk = dur_kind(ref["dur_h"][p])
            d_h = float(ref["dur_h"][p])
            utc = get(p, "utc_hourly_usage_journey_starts")
            npred += 1
            df = series_diff(utc, ref["starts"][p])
            if df:
                bad("starts-in-utc", "UsagePattern.utc_hourly_usage_journey_starts", "zone=UTC", pattern=p,
                    hour=hname(df[0]), observed=df[1], expected=df[2])
            par[p] = get(p, "nb_usage_journeys_in_parallel")
            want = total(ref["starts"][p]) * d_h
            npred += 2
            total_broken = abs(total(par[p]) - want) > tol(want, total(par[p]))
            if total_broken:
                bad("total", "UsagePattern.nb_usage_journeys_in_parallel", f"journey={jk}", pattern=p,
                    observed_total=total(par[p]), expected_total=want, law="sum starts x journey duration in hours",
                    observed=render_series(par[p]))
            # the window bounds imply the total: one clause per defect
            wv = None if total_broken else window_violation(par[p], utc, d_h, math.ceil(ref["dur_h"][p]))
            if wv:
                bad("window", "UsagePattern.nb_usage_journeys_in_parallel", f"journey={jk}", pattern=p,
                    starts=render_series(utc), observed=render_series(par[p]), **_h(wv))
            en = get(p, "devices_energy")
            exp = {h: x * ref["power"][p] * 3600.0 for h, x in par[p].items()}
            npred += 1
            df = series_diff(en, exp)
            if df:
                bad("hourly-product", "UsagePattern.devices_energy", f"journey={jk}", pattern=p, hour=hname(df[0]),
                    observed=df[1], expected=df[2], law="journeys in parallel x sum device power x 1 h")
        # ---------------------------------------------------------------- jobs
        across_avg = {}
        for j in sorted(ref["jobs"]):
            jr = ref["jobs"][j]
            job = m.objs[j]
            rk = dur_kind(jr["d_h"])
            d_h = float(jr["d_h"])
            n = math.ceil(jr["d_h"])
            users = sorted(ref["occ"][j])
            per = {}
            for attr in ("hourly_occurrences_per_usage_pattern", "hourly_avg_occurrences_per_usage_pattern",
                         "hourly_data_transferred_per_usage_pattern", "hourly_data_stored_per_usage_pattern"):
                keys = sorted(S.key_name(k) for k in getattr(job, attr).keys())
                npred += 1
                if keys != users:
                    bad("dict-keys", "JobBase." + attr, f"gap={gap}", job=j, observed_keys=keys, expected_keys=users)
            for p in users:
                if not all(p in [S.key_name(k) for k in getattr(job, a).keys()] for a in (
                        "hourly_occurrences_per_usage_pattern", "hourly_avg_occurrences_per_usage_pattern",
                        "hourly_data_transferred_per_usage_pattern", "hourly_data_stored_per_usage_pattern")):
                    continue
                shifts = ref["shifts"][j][p]
                trig = f"mult={len(shifts)},shift={'0' if max(shifts) == 0 else '>0'}"
                occ = get(j, "hourly_occurrences_per_usage_pattern", p)
                per.setdefault("hourly_occurrences_per_usage_pattern", {})[p] = occ
                npred += 2
                df = series_diff(occ, ref["occ"][j][p])
                if df:
                    bad("placement", "JobBase.hourly_occurrences_per_usage_pattern", trig, job=j, pattern=p,
                        hour=hname(df[0]), observed=df[1], expected=df[2], observed_series=render_series(occ),
                        expected_series=render_series(ref["occ"][j][p]), shifts_in_hours=shifts)
                want = total(ref["starts"][p]) * ref["mult"][j][p]
                if abs(total(occ) - want) > tol(want, total(occ)):
                    bad("total", "JobBase.hourly_occurrences_per_usage_pattern", trig, job=j, pattern=p,
                        observed_total=total(occ), expected_total=want, law="sum starts x multiplicity")
                for attr, amount, law in (
                        ("hourly_avg_occurrences_per_usage_pattern", d_h, "occurrences x request duration in hours"),
                        ("hourly_data_transferred_per_usage_pattern", jr["data_transferred"],
                         "occurrences x data transferred per request"),
                        ("hourly_data_stored_per_usage_pattern", jr["data_stored"],
                         "occurrences x data stored per request")):
                    x = get(j, attr, p)
                    per.setdefault(attr, {})[p] = x
                    want = total(occ) * amount
                    npred += 2
                    if abs(total(x) - want) > tol(want, total(x)):
                        bad("total", "JobBase." + attr, f"request={rk}", job=j, pattern=p, observed_total=total(x),
                            expected_total=want, law=law, observed=render_series(x), occurrences=render_series(occ))
                        continue        # the window bounds imply the total: one clause per defect
                    wv = window_violation(x, occ, amount, n)
                    if wv:
                        bad("window", "JobBase." + attr, f"request={rk}", job=j, pattern=p,
                            occurrences=render_series(occ), observed=render_series(x),
                            window_hours=n, per_occurrence=amount, **_h(wv))
            for attr in ("hourly_occurrences", "hourly_avg_occurrences", "hourly_data_transferred",
                         "hourly_data_stored"):
                a_per, a_acr = attr + "_per_usage_pattern", attr + "_across_usage_patterns"
                x = get(j, a_acr)
                if attr == "hourly_avg_occurrences":
                    across_avg[j] = x
                exp = {}
                for p in users:
                    add_into(exp, per.get(a_per, {}).get(p, {}))
                npred += 1
                df = series_diff(x, exp)
                if df:
                    bad("across-sum", "JobBase." + a_acr, f"gap={gap}", job=j, hour=hname(df[0]), observed=df[1],
                        expected=df[2], observed_series=render_series(x), sum_of_entries=render_series(exp),
                        law="sum of the per-usage-pattern entries, by timestamp")
            # end-to-end total from the inputs only (journey starts -> job load)
            want = sum(total(ref["starts"][p]) * ref["mult"][j][p] for p in users) * d_h
            npred += 1
            got = total(across_avg.get(j, {}))
            upstream = any(v["detail"].get("job") == j for v in viol)   # already reported at the stage that broke it
            if not upstream and abs(got - want) > tol(want, got):
                bad("end-to-end-total", "JobBase.hourly_avg_occurrences_across_usage_patterns", f"gap={gap}", job=j,
                    observed_total=got, expected_total=want,
                    law="sum over patterns (sum starts x multiplicity) x request duration in hours")
        # ---------------------------------------------------------------- servers
        servers = sorted({jr["server"] for jr in ref["jobs"].values()})
        for sv in servers:
            for res, attr in (("ram", "hour_by_hour_ram_need"), ("compute", "hour_by_hour_compute_need")):
                x = get(sv, attr)
                exp = {}
                for j, jr in sorted(ref["jobs"].items()):
                    if jr["server"] == sv:
                        add_into(exp, across_avg.get(j, {}), factor=jr[res])
                npred += 1
                df = series_diff(x, exp)
                if df:
                    bad("hourly-product", "ServerBase." + attr, f"gap={gap}", server=sv, hour=hname(df[0]),
                        observed=df[1], expected=df[2], law="sum over jobs (average occurrences x need)")
    except BadSeries as ex:
        bad("malformed-series", "?", str(ex))
    h = hashlib.sha1()
    for k in sorted(seen, key=repr):
        h.update(repr((k[1], k[2], [(hh - hour_of(c["start"]), float(f"{x:.9g}")) for hh, x in sorted(seen[k].items())])
                      ).encode())
    return "ok" if not viol else "violation", viol, npred, h.hexdigest()[:16]


def _h(wv):
    out = dict(wv)
    out["hour"] = hname(out["hour"])
    return out


def model_size(c):
    return len(c["starts"]) + len(c["steps"]) + sum(appearances(len(c["steps"]), c["place"])) + (
        0 if c["gap"] == "none" else 2)


# ------------------------------------------------------------------------------------------------ task interface
def prepare():
    boot.install_seams()


def run_task(task):
    res = {"outcome": "ok", "violations": [], "counters": {}, "outcomes": {}, "digests": [], "npred": 0, "built": 0}
    for i, c in enumerate(task["models"]):
        oc, viol, npred, dg = check_model(c)
        res["outcomes"][oc] = res["outcomes"].get(oc, 0) + 1
        res["npred"] += npred
        if dg is not None:
            res["digests"].append(dg)
            res["built"] += 1
        for v in viol:
            v["model"] = i
            res["violations"].append(v)
        if viol:
            res["outcome"] = "violation"
    return res


# ------------------------------------------------------------------------------------------------ enumeration
REP_SERIES = [{"starts": [1], "start": WORD_START}, {"starts": [0, 3], "start": WORD_START},
              {"starts": [1, 0, 3], "start": WORD_START}, {"starts": [3, 1, 0, 1], "start": WORD_START}, LONG1]
# (journey, placement, request duration) combinations against which EVERY start series and gap is run
# ([1, 125, 59] lasts 185 min: a 3-step journey longer than 3 hours, here with a request longer than 3 hours)
EDGE_COMBOS = [([59, 61], "both", "90min"), ([125], "twice", "0.5s"), ([60, 0, 1], "twice", "250min"),
               ([0], "first", "60min"), ([1, 125, 59], "both", "185min")]
EDGE_JOURNEYS = [[0], [59, 61], [1, 125, 59]]


def cfg(series, steps, place, rd, gap):
    return {"starts": list(series["starts"]), "start": series["start"], "steps": list(steps), "place": place,
            "rd": rd, "gap": gap}


def enumerate_space(tier):
    """Returns (list of configurations, description of the slices)."""
    out, slices = [], []
    if tier == "quick":
        k = 0
        a = []
        for steps in [j for j in JOURNEYS if len(j) <= 2]:
            for place in PLACES:
                for rd in RDS:
                    a.append(cfg(REP_SERIES[k % len(REP_SERIES)], steps, place, rd, GAPS[(k // 5) % 3]))
                    k += 1
        slices.append(["A: all 1- and 2-step journeys x all placements x all request durations "
                       "(series and gap cycling over 5 representative series / 3 gaps)", len(a)])
        b = []
        for ji, steps in enumerate([j for j in JOURNEYS if len(j) == 3]):
            for pi, place in enumerate(PLACES):
                for r in range(2):
                    rd = RDS[(ji + pi * 2 + r * 5 + ji // 10) % len(RDS)]
                    if r == 0 or place in ("both", "twice"):       # k advances in any case: the cycling is fixed
                        b.append(cfg(REP_SERIES[k % len(REP_SERIES)], steps, place, rd, GAPS[(k // 5) % 3]))
                    k += 1
        slices.append(["B: all 3-step journeys (up to 375 min) x all placements x 1 (first, last) or 2 (both, twice) "
                       "request durations each (cycling over all 10)", len(b)])
        c = [cfg(s, steps, place, rd, gap) for s in SERIES for gap in GAPS for steps, place, rd in EDGE_COMBOS]
        slices.append(["C: all 122 start series x all gaps x 5 fixed (journey, placement, request duration) combos",
                       len(c)])
        out = a + b + c
    else:
        a, k = [], 0
        for steps in JOURNEYS:
            for place in PLACES:
                for rd in RDS:
                    a += [cfg(REP_SERIES[2], steps, place, rd, gap) for gap in GAPS]
                    a.append(cfg(LONG1, steps, place, rd, GAPS[k % 3]))
                    k += 1
        slices.append(["A: all 258 journeys x all placements x all request durations x (start series [1,0,3] with "
                       "all 3 gaps + the 9-hour series with one gap, cycling)", len(a)])
        c = [cfg(s, steps, place, rd, gap) for s in SERIES for gap in GAPS for rd in RDS for place in PLACES
             for steps in EDGE_JOURNEYS]
        slices.append(["C: all 122 start series x all gaps x all request durations x all placements x 3 journeys "
                       "([0], [59,61], [1,125,59])", len(c)])
        out = a + c
    seen, uniq = set(), []
    for x in out:
        kx = cfg_key(x)
        if kx not in seen:
            seen.add(kx)
            uniq.append(x)
    return uniq, slices, len(out)


def dimension_coverage(cfgs):
    cov = {"series": len({json.dumps([c["starts"], c["start"]]) for c in cfgs}),
           "journeys": len({json.dumps(c["steps"]) for c in cfgs}),
           "placements": len({c["place"] for c in cfgs}), "request_durations": len({c["rd"] for c in cfgs}),
           "gaps": len({c["gap"] for c in cfgs}),
           "triples_stepduration_x_requestduration_x_placement":
               len({(d, c["rd"], c["place"]) for c in cfgs for d in c["steps"]}),
           "pairs_journey_x_placement": len({(json.dumps(c["steps"]), c["place"]) for c in cfgs})}
    return cov


def main(tier):
    prepare()
    run = report.Run(PROP, tier)
    cfgs, slices, n_enum = enumerate_space(tier)
    group = 30
    # generous alarms: a build takes ~0.2 s; the alarm only exists so that a hung worker cannot block the run
    tasks = [{"models": cfgs[i:i + group], "_timeout": GROUP_TIMEOUT} for i in range(0, len(cfgs), group)]
    engine.start(run_task)
    t0 = time.time()
    results = engine.pmap(tasks, chunksize=1)
    engine.check_results(results, run)
    # a group that hit the alarm (overloaded machine) is re-run model by model
    redo = [{"models": [c], "_timeout": GROUP_TIMEOUT} for t, r in zip(tasks, results) if r.get("_timeout")
            for c in t["models"]]
    n_group_timeouts = sum(1 for r in results if r.get("_timeout"))
    if redo:
        tasks = [t for t, r in zip(tasks, results) if not r.get("_timeout")] + redo
        results = [r for r in results if not r.get("_timeout")] + engine.pmap(redo, chunksize=1)
        engine.check_results(results, run)
    engine.stop()
    outcomes, digests, npred, built, unexecuted = {}, set(), 0, 0, []
    for t, r in zip(tasks, results):
        if r.get("_timeout"):
            unexecuted += t["models"]
            continue
        for k, v in r["outcomes"].items():
            outcomes[k] = outcomes.get(k, 0) + v
        digests.update(r["digests"])
        npred += r["npred"]
        built += r["built"]
        for v in r["violations"]:
            c = t["models"][v["model"]]
            run.violation(v["sig"], {"task": {"models": [c]}, "detail": v["detail"], "size": model_size(c)})
    rejected = sum(v for k, v in outcomes.items() if k.startswith("rejected"))
    run.count("rejected", rejected)
    samples = []
    for c in (cfgs[0], cfgs[len(cfgs) // 3], cfgs[len(cfgs) // 2], cfgs[-1]):
        oc, viol, n, dg = check_model(c)
        samples.append({"model": c, "outcome": oc, "predictions_compared": n, "value_digest": dg})
    dim = dimension_coverage(cfgs)
    cov = {"states": len(cfgs), "transitions": built, "traces_validated_against_impl": npred,
           "samples": samples, "exhaustive": not unexecuted, "groups_rerun_after_alarm": n_group_timeouts,
           "models_not_executed": unexecuted[:20],
           "distinct_outcomes": len(digests) + len([k for k in outcomes if k != "ok"]),
           "distinct_value_digests": len(digests), "outcomes": outcomes,
           "configurations_enumerated": n_enum, "distinct_models": len(cfgs), "slices": slices,
           "dimension_coverage": dim, "full_cartesian_product_size": FULL_PRODUCT,
           "bounds": "start series: all words of length 1..4 over {0,1,3} (120) + a 9-hour and a 30-hour series; "
                     "journeys: 1-3 steps with durations in {0,1,59,60,61,125} min (258); placement of the job in "
                     "{first, last, both, twice in one step}; request duration in {0.5 s, 1 s, 30, 60, 61, 90, 120, "
                     "150, 185, 250 min}; second pattern in {none, overlapping window on the same journey, disjoint window on "
                     "its own journey}; all in UTC. The tier enumerates exactly the slices listed under 'slices' "
                     "(a stated sub-product of the 3.78 M full cartesian product, which does not fit the time budget); "
                     "'exhaustive' refers to those slices.",
           "explanation": "every model is built with the real library (System construction computes everything) and "
                          "every per-pattern entry, across-pattern sum, journeys in parallel, device energy and "
                          "server need is compared with the reference model on dict[hour -> float]",
           "wall_models_s": round(time.time() - t0, 1)}
    rc = run.finish(cov, assumptions=[
        "EMPTY and hours absent from a series count as zero (statement of C03)",
        "the spread of a multi-hour request's data / occupancy inside [start, start+ceil(duration)) is not demanded: "
        "only the total and the cumulative-flow bounds of that window",
        "a model whose construction raises is counted as rejected, not as a violation (C04 decides)",
        "tolerance rel 1e-9 / abs 1e-12 in base units; storage keeps data 5 years so that no expiry is involved",
        "hash seam installed (set order = creation order); ids from a counter"])
    if unexecuted and rc == 0:
        print(f"HARNESS-ERROR {len(unexecuted)} models did not terminate within {GROUP_TIMEOUT} s (machine overloaded?)")
        return 2
    return rc


if __name__ == "__main__":
    try:
        sys.exit(main(sys.argv[1] if len(sys.argv) > 1 else "quick"))
    except engine.CrashError as e:
        print("HARNESS-ERROR", e)
        sys.exit(2)
