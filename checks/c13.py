"""C13 — saving a system to JSON and loading it back loses nothing.

For every (world W1-W4, schedule, edit history of length <= 1 before saving, with/without calculated attributes):
system_to_json -> json text -> json_to_system, then
 (a) same objects: ids, classes, links and list contents (by id), labels, sources and input values;
 (b) recomputed results of the loaded system == the original's;
 (c) exporting the loaded system again gives the same JSON;
 (d) the loaded system is live: every letter of the edit alphabet applied to it gives what a fresh build of the edited
     world gives;
 (e) the same file rewritten as a previous-major-version (9.x) file ('Hardware' key) loads to the same model.
"""
import copy
import json
import sys

from efmc import boot, engine, report, world as W, snap as S, hist as H
from checks import c01

PROP = "C13"


def prepare():
    boot.install_seams()
    boot.all_classes()


def describe_inputs(objs):
    """{(obj id, attr): description} of every non-calculated attribute: links by id, values by canon + label + source."""
    out = {}
    for o in objs:
        calc = set(o.calculated_attributes)
        out[(o.id, "<class>")] = type(o).__name__
        out[(o.id, "<name>")] = o.name
        for attr, val in list(o.__dict__.items()):
            if attr in S.SKIP_ATTRS or attr in S.SYSTEM_REF_DICTS or attr in calc:
                continue
            if isinstance(val, S.ContextualModelingObjectAttribute):
                out[(o.id, attr)] = ("link", val._value.id)
            elif isinstance(val, S.ListLinkedToModelingObj):
                out[(o.id, attr)] = ("list", tuple(S.unwrap(x).id for x in list.__iter__(val)))
            elif isinstance(val, S.ExplainableObject):
                src = getattr(val, "source", None)
                out[(o.id, attr)] = ("value", S.canon(val), val.label, None if src is None else (src.name, src.link))
            elif isinstance(val, str) or val is None:
                out[(o.id, attr)] = ("raw", val)
    return out


def inputs_diff(a, b):
    out = []
    for k in sorted(set(a) | set(b), key=repr):
        x, y = a.get(k), b.get(k)
        if x is None or y is None:
            out.append((k, "absent" if x is None else "present", "absent" if y is None else "present"))
            continue
        if isinstance(x, tuple) and x and x[0] == "value" and isinstance(y, tuple) and y and y[0] == "value":
            if not S.close(x[1], y[1], 1e-12, 0.0):
                out.append((k, "value:" + S.render(x[1]), "value:" + S.render(y[1])))
            elif x[2] != y[2]:
                out.append((k, f"label:{x[2]}", f"label:{y[2]}"))
            elif x[3] != y[3]:
                out.append((k, f"source:{x[3]}", f"source:{y[3]}"))
        elif x != y:
            out.append((k, str(x)[:150], str(y)[:150]))
    return out


class Loaded:
    """Model-like wrapper around the objects returned by json_to_system."""

    def __init__(self, flat, system_id, ranks):
        self.objs = {o.name: o for o in flat.values()}
        self.system = flat[system_id]
        self.ranks = ranks
        self.sim = None


def closure_letters(letters, w):
    names = set(W.reachable(w))

    def ok(e):
        if e[0] == "multi":
            return all(ok(s) for s in e[1])
        if e[1] not in names:
            return False
        if e[0] == "link":
            return e[3] in names
        if e[0] == "list":
            return all(x in names for x in e[3])
        if e[0] == "lop":
            flat = []
            for a in e[4]:
                flat += a if isinstance(a, list) else [a]
            return all((not isinstance(x, str)) or x in names for x in flat)
        return True
    return [e for e in letters if ok(e)]


def run_task(task):
    from efootprint.api_utils.system_to_json import system_to_json
    from efootprint.api_utils.json_to_system import json_to_system
    w = H.world_of(task)
    perms = task.get("perms")
    m = W.build(w, perms=perms)
    res = {"violations": [], "counters": {}}
    for e in task.get("history", []):
        try:
            W.apply_live(m, e)
            w = W.apply_spec(w, e)
        except Exception:  # noqa
            res["outcome"] = "history-rejected"
            return res
    boot.set_ranks(m.ranks)
    flag = task["with_calculated"]
    state = engine.letter_class(task["history"][-1], H.world_of(task)) if task.get("history") else "build"
    sigbase = {"with_calculated": str(flag), "world": task["world"] if isinstance(task["world"], str) else "custom"}
    try:
        saved = system_to_json(m.system, save_calculated_attributes=flag)
        text = json.dumps(saved)
    except Exception as ex:  # noqa
        res["outcome"] = "save-raises"
        res["violations"].append({"sig": dict(sigbase, clause="save-raises", exc=type(ex).__name__, state=state),
                                  "detail": {"exception": str(ex)[:200]}})
        return res
    saved = json.loads(text)
    orig_objs = S.system_objects(m.system)
    orig_inputs = describe_inputs(orig_objs)
    orig_values = S.value_snapshot(m.system, orig_objs)

    def load(d, clause):
        try:
            cod, flat = json_to_system(copy.deepcopy(d))
            return Loaded(flat, m.system.id, m.ranks)
        except Exception as ex:  # noqa
            classes = sorted(k for k in d if k != "efootprint_version")
            res["violations"].append({"sig": dict(sigbase, clause=clause, exc=type(ex).__name__,
                                                  has_cloud_server=str("BoaviztaCloudServer" in classes)),
                                      "detail": {"exception": str(ex)[:300]}})
            return None
    lm = load(saved, "load-raises")
    if lm is None:
        res["outcome"] = "load-raises"
        return res
    res["outcome"] = "loaded"
    boot.set_ranks(m.ranks)
    lobjs = S.system_objects(lm.system)
    d = inputs_diff(orig_inputs, describe_inputs(lobjs))
    if d:
        k = d[0][0]
        res["violations"].append({"sig": dict(sigbase, clause="objects-differ", attr=str(k[1]), what=d[0][1].split(":")[0]),
                                  "detail": {"first_difference": [str(x)[:300] for x in d[0]], "n": len(d)}})
    dv = S.diff(orig_values, S.value_snapshot(lm.system, lobjs))
    if dv:
        o = m.objs.get(dv[0][0][0])
        res["violations"].append({"sig": dict(sigbase, clause="results-differ",
                                              where=S.class_attr(S.unwrap(o), dv[0][0][1]) if o is not None else "?"),
                                  "detail": {"first_difference": [str(x)[:300] for x in dv[0]], "n": len(dv)}})
    try:
        again = json.loads(json.dumps(system_to_json(lm.system, save_calculated_attributes=flag)))
        if normalise(again) != normalise(saved):
            diffk = first_json_diff(normalise(saved), normalise(again))
            res["violations"].append({"sig": dict(sigbase, clause="re-export-differs", where=diffk[0]),
                                      "detail": {"path": diffk[1], "saved": str(diffk[2])[:200], "again": str(diffk[3])[:200]}})
    except Exception as ex:  # noqa
        res["violations"].append({"sig": dict(sigbase, clause="re-export-raises", exc=type(ex).__name__),
                                  "detail": {"exception": str(ex)[:200]}})
    # (e) previous major version file
    if task.get("check_v9"):
        v9 = copy.deepcopy(saved)
        v9["efootprint_version"] = "9.1.6"
        if "Device" in v9:
            v9 = {("Hardware" if k == "Device" else k): v for k, v in v9.items()}
        l9 = load(v9, "version-9-load-raises")
        if l9 is not None:
            boot.set_ranks(m.ranks)
            d9 = S.diff(orig_values, S.value_snapshot(l9.system))
            di = inputs_diff(orig_inputs, describe_inputs(S.system_objects(l9.system)))
            if d9 or di:
                res["violations"].append({"sig": dict(sigbase, clause="version-9-file-loads-to-different-model"),
                                          "detail": {"first": [str(x)[:300] for x in (d9 or di)[0]]}})
    # (d) the loaded system is live
    g = task.get("followup")
    if g is not None and not res["violations"]:
        try:
            w2 = W.apply_spec(w, g)
        except W.SpecRaise:
            return res
        lc = engine.letter_class(g, w)
        live_exc = None
        try:
            W.apply_live(lm, g)
        except Exception as ex:  # noqa
            live_exc = type(ex).__name__ + ": " + str(ex)[:150]
        boot.set_ranks(m.ranks)
        ref_exc = None
        try:
            W.apply_live(m, g)     # m was freshly built (follow-ups are only asked for an empty history)
        except Exception as ex:  # noqa
            ref_exc = type(ex).__name__
        boot.set_ranks(m.ranks)
        if live_exc is None and ref_exc is None:
            dd = S.diff(S.value_snapshot(lm.system), S.value_snapshot(m.system))
            if dd:
                rank = S.canonical_rank(S.system_objects(lm.system))
                first = min(dd, key=lambda t: (rank.get(t[0], (99, 99)), t[0]))
                o = lm.objs.get(first[0][0])
                sig = dict(sigbase, clause="edit-on-loaded-system-differs-from-freshly-built-one", letter=lc,
                           first_divergent=S.class_attr(S.unwrap(o), first[0][1]) if o is not None else "?")
                res["violations"].append({"sig": sig, "detail": {"first": [str(x)[:300] for x in first], "n": len(dd)}})
            res["followup"] = "accepted"
        elif (live_exc is None) != (ref_exc is None):
            res["violations"].append({"sig": dict(sigbase, clause="edit-accepted-on-one-side-only", letter=lc,
                                                  loaded=str(live_exc).split(":")[0], fresh=str(ref_exc)),
                                      "detail": {"loaded": live_exc, "fresh": ref_exc}})
            res["followup"] = "one-sided"
        else:
            res["followup"] = "both-raise"
    res["vdigest"] = S.digest(orig_values, 8)
    return res


def normalise(d, exported=None):
    """The calculation-graph id lists encode sets (their order is the order of registration): compare them sorted, and
    ignore ids of values held by objects that are not in the file (spare objects outside the system: the loaded model
    cannot know them)."""
    if exported is None:
        exported = set()
        for cls, objs in d.items():
            if isinstance(objs, dict):
                exported.update(objs.keys())
    if isinstance(d, dict):
        out = {}
        for k, v in d.items():
            if k in ("direct_children_with_id", "direct_ancestors_with_id") and isinstance(v, list):
                out[k] = sorted(x for x in v if x.split("-in-")[-1] in exported)
            else:
                out[k] = normalise(v, exported)
        return out
    if isinstance(d, list):
        return [normalise(x, exported) for x in d]
    return d


def first_json_diff(a, b, path=""):
    if type(a) != type(b):
        return (path.split("/")[1] if "/" in path else path, path, a, b)
    if isinstance(a, dict):
        for k in sorted(set(a) | set(b)):
            if k not in a or k not in b:
                return ((path + "/" + k).split("/")[1], path + "/" + k, a.get(k, "<absent>"), b.get(k, "<absent>"))
            r = first_json_diff(a[k], b[k], path + "/" + k)
            if r:
                return r
        return None
    if isinstance(a, list):
        if len(a) != len(b):
            return (path.split("/")[1] if "/" in path else path, path, a, b)
        for i, (x, y) in enumerate(zip(a, b)):
            r = first_json_diff(x, y, f"{path}[{i}]")
            if r:
                return r
        return None
    if a != b:
        # keep only the class and the attribute name in the signature position
        parts = path.split("/")
        return (parts[1] + "." + parts[-1].split("[")[0] if len(parts) > 2 else path, path, a, b)
    return None


TIERS = {"quick": {"W1": ("rev", 20, True), "W1f": ("default", 6, False), "W1c": ("default", 6, False), "W2": ("default", 12, True),
                   "W3": ("default", 20, True), "W4": ("default", 8, True)},
         "thorough": {"W1": ("rev", 200, True), "W1f": ("rev", 40, True), "W2": ("rev", 200, True), "W3": ("rev", 200, True), "W4": ("default", 40, True)}}


def make_tasks(tier):
    tasks = []
    for fam, (sched, nstates, followups) in TIERS[tier].items():
        w0 = W.family(fam)
        scheds = [{}, H.reversed_schedule(w0)] if sched == "rev" else [{}]
        if fam == "W4":
            letters = H.numeric_letters(w0, w0, specials=False) + H.list_letters(w0, allow_empty=False)
        else:
            letters = [e for e in c01.core_alphabet(w0, w0) if not (e[0] == "list" and not e[3])]
        # histories before saving: no empty list, no removal of a usage pattern (the dangling pattern's ghost traffic is
        # C01's known finding and the removed pattern is not exported)
        hist_letters = [e for e in letters if not (e[0] == "list" and not e[3])
                        and c01.removes_element(w0, e) != "System.usage_patterns"]
        step = max(1, len(hist_letters) // max(1, nstates))
        hists = [[]] + [[e] for e in hist_letters[::step]][:nstates]
        for perms in scheds:
            for hi, hist in enumerate(hists):
                for flag in (False, True):
                    tasks.append({"world": fam, "perms": perms, "history": hist, "with_calculated": flag,
                                  "check_v9": hi == 0, "followup": None})
            if followups:
                fl = closure_letters(letters, w0)
                for flag in (False, True):
                    for g in fl:
                        tasks.append({"world": fam, "perms": perms, "history": [], "with_calculated": flag,
                                      "check_v9": False, "followup": g})
    return tasks


def main(tier):
    prepare()
    run = report.Run(PROP, tier)
    engine.start(run_task, warm=boot.warm_up)
    tasks = make_tasks(tier)
    results = engine.pmap(tasks)
    engine.check_results(results, run)
    engine.stop()
    outcomes, digests = {}, set()
    for t, r in zip(tasks, results):
        if r.get("_timeout"):
            run.violation({"clause": "timeout"}, {"task": t, "size": 1})
            continue
        k = r["outcome"] + (":" + r["followup"] if r.get("followup") else "")
        outcomes[k] = outcomes.get(k, 0) + 1
        if r.get("vdigest"):
            digests.add(r["vdigest"])
        for v in r["violations"]:
            run.violation(v["sig"], {"task": t, "detail": v["detail"], "size": len(t["history"]) + (1 if t["followup"] else 0)})
    cov = {"states": len(tasks), "transitions": len(tasks), "traces_validated_against_impl": outcomes.get("loaded", 0),
           "samples": [tasks[0], tasks[-1]], "exhaustive": True, "outcomes": outcomes, "distinct_outcomes": len(digests),
           "bounds": f"{TIERS[tier]} = world: (schedules, depth-1 states before saving, follow-up letters on the loaded system)"}
    return run.finish(cov, assumptions=[
        "world inputs are representable at 3 decimals, so the documented rounding of hourly inputs is not a source of diffs",
        "a version-9 file is the saved file with efootprint_version 9.1.6 and the Device section under its old key 'Hardware'"])


if __name__ == "__main__":
    try:
        sys.exit(main(sys.argv[1] if len(sys.argv) > 1 else "quick"))
    except engine.CrashError as e:
        print("HARNESS-ERROR", e)
        sys.exit(2)
