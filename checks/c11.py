"""C11 — local-time usage is converted to UTC without losing or inventing traffic.

Bounded exhaustive enumeration on the real ``ExplainableHourlyQuantities.convert_to_utc``:

    all pytz.all_timezones
      x every UTC-offset transition of the zone whose UTC year lies in the tier's range
      x window starts {3, 2, 1, 0 h before, 1 h after} the local transition wall time (floored to the hour)
      x lengths {1, 2, 3, 5, 26}
    + two transition-free windows per zone
    + UsagePattern.utc_hourly_usage_journey_starts of the two patterns of world W2 (several zone pairs).

Input values are distinct powers of two (input k carries 2**k), so every output value decodes to the exact set of
inputs that were merged into it.

Reference model (no pandas): the zone's own pytz transition table (``_utc_transition_times`` / ``_transition_info``)
searched with bisect.  For a local wall time L it gives the set of UTC instants whose wall time is L:
    exactly one   -> the value must be at that instant (local - offset in force);
    two or more   -> (repeated hour) the value must be at one of them;
    none          -> (skipped hour; L lies in the jump of transition T) the value must be at T or at an hourly
                     instant (a whole hour of the series' phase under the offset before or after T) at most one
                     hour away from T.
Clauses: total preserved; index strictly increasing / unique / UTC; placement of every input by the rule above;
the output is exactly the grouped sum of the inputs for that assignment (the decoded input sets partition the
inputs and there are no extra rows).
"""
import bisect
import hashlib
import sys
import time
from datetime import datetime, timedelta

from efmc import boot, engine, report

PROP = "C11"
NS = 10 ** 9
HOUR = 3600 * NS
DAY = 24 * HOUR
EPOCH = datetime(1970, 1, 1)
OFFSETS_H = (-3, -2, -1, 0, 1)
LENGTHS = (1, 2, 3, 5, 26)
YEARS = {"quick": (2023, 2027), "thorough": (1970, 2037)}
FREE_STARTS = ("2025-01-15 00:00", "2025-07-15 12:00")
TR_PER_TASK = {"quick": 6, "thorough": 24}

_lib = {}
_tables = {}


def prepare():
    boot.core()
    import numpy as np
    import pytz
    from efootprint.abstract_modeling_classes.source_objects import SourceObject
    from efootprint.builders.time_builders import create_source_hourly_values_from_list
    _lib.update(np=np, pytz=pytz, SourceObject=SourceObject, mk=create_source_hourly_values_from_list)


# ------------------------------------------------------------------------------------------- reference model
def ns_of(dt):
    d = dt - EPOCH
    return (d.days * 86400 + d.seconds) * NS + d.microseconds * 1000


def dt_of(ns):
    return EPOCH + timedelta(microseconds=ns // 1000)


def iso(ns):
    s = dt_of(ns).strftime("%Y-%m-%d %H:%M:%S")
    return s + (f".{ns % NS:09d}" if ns % NS else "")


class ZoneTable:
    """UTC transition instants T[i] (ns) and the offset off[i] (ns) in force on [T[i], T[i+1])."""

    def __init__(self, zone):
        tz = _lib["pytz"].timezone(zone)
        self.zone = zone
        if hasattr(tz, "_utc_transition_times"):
            self.T = [ns_of(t) for t in tz._utc_transition_times]
            self.off = [ns_of(EPOCH + info[0]) for info in tz._transition_info]
            self.years = [t.year for t in tz._utc_transition_times]
        else:  # StaticTzInfo (UTC, Etc/GMT+5, ...)
            self.T = [ns_of(datetime(1, 1, 1))]
            self.off = [ns_of(EPOCH + tz._utcoffset)]
            self.years = [1]
        assert len(self.T) == len(self.off) and self.T == sorted(self.T)

    def index_at(self, u):
        return max(0, bisect.bisect_right(self.T, u) - 1)

    def offset_at(self, u):
        return self.off[self.index_at(u)]

    def _range(self, local):
        lo = max(0, bisect.bisect_right(self.T, local - 2 * DAY) - 1)
        hi = bisect.bisect_right(self.T, local + 2 * DAY)
        return lo, max(hi, lo + 1)

    def instants(self, local):
        """All UTC instants whose wall time in the zone is `local`."""
        lo, hi = self._range(local)
        out = []
        for i in range(lo, hi):
            u = local - self.off[i]
            if (i == 0 or self.T[i] <= u) and (i + 1 >= len(self.T) or u < self.T[i + 1]):
                out.append(u)
        return sorted(set(out))

    def gaps_containing(self, local):
        """Indices i of transitions whose forward jump [T+off_before, T+off_after) contains `local`."""
        lo, hi = self._range(local)
        return [i for i in range(max(1, lo), hi)
                if self.T[i] + self.off[i - 1] <= local < self.T[i] + self.off[i]]

    def offset_transitions(self, y0, y1):
        return [i for i in range(1, len(self.T)) if y0 <= self.years[i] <= y1 and self.off[i] != self.off[i - 1]]

    def wall_floor(self, i):
        """Local wall time at which transition i takes effect (start of the skipped / repeated interval),
        floored to the hour."""
        w = self.T[i] + min(self.off[i - 1], self.off[i])
        return w - w % HOUR

    def kind(self, i):
        d = self.off[i] - self.off[i - 1]
        if d > 0:
            return "gap<=1h" if d <= HOUR else ("gap-multi-hour" if d < DAY else "skipped-day")
        return "fold<=1h" if -d <= HOUR else ("fold-multi-hour" if -d < DAY else "repeated-day")

    def window_kind(self, start, n):
        """Class of the transitions whose skipped / repeated wall interval meets the window."""
        a, b = start, start + (n - 1) * HOUR
        lo, hi = self._range(a)
        hi = max(hi, self._range(b)[1])
        kinds = set()
        for i in range(max(1, lo), hi):
            if self.off[i] == self.off[i - 1]:
                continue
            w0 = self.T[i] + min(self.off[i - 1], self.off[i])
            w1 = self.T[i] + max(self.off[i - 1], self.off[i])
            if w0 <= b and a < w1:
                kinds.add(self.kind(i))
        return "+".join(sorted(kinds)) if kinds else "no-transition"


def table(zone):
    t = _tables.get(zone)
    if t is None:
        t = _tables[zone] = ZoneTable(zone)
    return t


def admissible(zt, local):
    """(class of the local hour, exact admissible instants, predicate for the rest of the acceptance set)."""
    ins = zt.instants(local)
    if len(ins) == 1:
        return "exists-once", ins, None
    if len(ins) >= 2:
        return "repeated", ins, None
    gaps = zt.gaps_containing(local)
    assert gaps, f"reference model: {zt.zone} {iso(local)} has no instant and lies in no jump"
    ts = [zt.T[i] for i in gaps]

    def near(u):
        # an hourly instant at most one hour away from the transition: a whole hour of the series' phase under the
        # offset in force just before or just after the transition (T - 1 ns is not one; T + 30 min is, for a
        # 30-minute change)
        return any(abs(u - zt.T[i]) <= HOUR and ((u + zt.off[i - 1] - local) % HOUR == 0 or
                                                 (u + zt.off[i] - local) % HOUR == 0) for i in gaps)
    return "skipped", ts, near


def reference(zt, start, n):
    """The conversion the statement pins down when nothing is ambiguous; for repeated / skipped hours the first
    admissible instant (used only for the W2 comparison and for rendering)."""
    out = {}
    for k in range(n):
        cls, exact, _ = admissible(zt, start + k * HOUR)
        out[exact[0]] = out.get(exact[0], 0) + (1 << k)
    return sorted(out.items())


# ------------------------------------------------------------------------------------------- implementation
def convert(zone, start_ns, n):
    """Run the real convert_to_utc on n hourly values 2**k starting at the naive local time `start_ns`."""
    src = _lib["mk"]([float(1 << k) for k in range(n)], start_date=dt_of(start_ns))
    out = src.convert_to_utc(_lib["SourceObject"](_lib["pytz"].timezone(zone)))
    return read_series(out)


def read_series(ehq):
    df = ehq.value
    idx = df.index
    tzname = str(getattr(idx, "tz", None))
    stamps = [int(x) for x in idx.as_unit("ns").asi8]
    vals = [float(x) for x in _lib["np"].asarray(df["value"].values._data, dtype=float)]
    return tzname, stamps, vals


def check_case(zone, start_ns, n):
    """-> (violations, shape digest, tags)."""
    try:
        tzname, stamps, vals = convert(zone, start_ns, n)
    except Exception as ex:  # noqa
        zk = table(zone).window_kind(start_ns, n)
        return [{"sig": {"zone_kind": zk, "clause": "conversion-raises"},
                 "detail": {"zone": zone, "local_start": iso(start_ns), "length": n,
                            "exception": f"{type(ex).__name__}: {str(ex)[:300]}"}}], "raised", {"raised"}
    return check_output(zone, start_ns, n, tzname, stamps, vals)


def check_output(zone, start_ns, n, tzname, stamps, vals, extra_sig=None):
    """All clauses of the oracle on one converted series whose inputs were 2**k, k < n, on hourly local stamps."""
    zt = table(zone)
    zk = zt.window_kind(start_ns, n)
    sig0 = dict(extra_sig or {}, zone_kind=zk)
    viol = []

    def bad(clause, sig_extra=None, **detail):
        d = {"zone": zone, "local_start": iso(start_ns), "length": n, "window_kind": zk}
        d.update(detail)
        viol.append({"sig": dict(sig0, clause=clause, **(sig_extra or {})), "detail": d})

    rendered = [[iso(u), v] for u, v in zip(stamps, vals)]
    total_in = (1 << n) - 1
    if sum(vals) != total_in:
        bad("total-preserved", sum_in=total_in, sum_out=sum(vals), output=rendered)
    if tzname != "UTC":
        bad("index-utc", tz=tzname)
    if any(b <= a for a, b in zip(stamps, stamps[1:])):
        # class-level trigger: were there duplicate stamps, and did the conversion merge anything at all?
        merged = any(v == int(v) and int(v) & (int(v) - 1) for v in vals)
        bad("index-strictly-increasing", {"duplicate_stamps": "yes" if len(set(stamps)) < len(stamps) else "no",
                                          "merged_rows": "some" if merged else "none"}, output=rendered)
    # decode every output value into the inputs merged into it
    where = {}
    exact = all(v >= 0 and v == int(v) and v <= total_in for v in vals)
    extra_rows = 0
    if exact:
        for u, v in zip(stamps, vals):
            bits = [k for k in range(n) if (int(v) >> k) & 1]
            if not bits:
                extra_rows += 1
            for k in bits:
                where.setdefault(k, []).append(u)
    partition = exact and extra_rows == 0 and all(len(where.get(k, [])) == 1 for k in range(n))
    if not partition:
        bad("grouped-sum", output=rendered, inputs_found_where={str(k): [iso(u) for u in us] for k, us in where.items()},
            note="the output values are not the sums of a partition of the inputs (powers of two)")
    tags = set()
    shape = []
    for k in range(n):
        local = start_ns + k * HOUR
        cls, ex_set, near = admissible(zt, local)
        for u in where.get(k, []):
            ok = u in ex_set or (near is not None and near(u))
            shape.append((k, u - local))
            if cls == "exists-once":
                tags.add("once")
            elif cls == "repeated":
                tags.add("repeated->" + ("first" if u == ex_set[0] else "last" if u == ex_set[-1] else "other"))
            else:
                d = u - ex_set[0]
                tags.add("skipped->" + ("T" if d == 0 else "T+<=1h" if 0 < d <= HOUR else "T-<=1h" if -HOUR <= d < 0
                                        else "far"))
            if not ok:
                clause = {"exists-once": "placement-existing-hour", "repeated": "placement-repeated-hour",
                          "skipped": "placement-skipped-hour"}[cls]
                extra = None
                if cls == "skipped":   # the jump that swallowed this hour decides the class, not the whole window
                    gi = zt.gaps_containing(local)
                    extra = {"zone_kind": "+".join(sorted({zt.kind(i) for i in gi})),
                             "side": "before-transition" if u < min(ex_set) else "after-transition"}
                bad(clause, extra, input_index=k, local_hour=iso(local), placed_at_utc=iso(u),
                    admissible_utc=[iso(x) for x in ex_set] +
                    (["or an hourly instant within 1 h of the transition"] if near is not None else []),
                    hours_from_nearest_admissible=min(abs(u - x) for x in ex_set) / HOUR, output=rendered)
    dig = hashlib.sha1(repr((zk, n, shape, len(stamps))).encode()).hexdigest()[:10]
    return viol, dig, tags


def cases_of_transition(zt, i):
    w = zt.wall_floor(i)
    return [(w + o * HOUR, n) for o in OFFSETS_H for n in LENGTHS]


def free_windows(zt):
    """Two windows with no offset transition within two days of any of their hours."""
    out = []
    for s in FREE_STARTS:
        start = ns_of(datetime.strptime(s, "%Y-%m-%d %H:%M"))
        n = 26 if not out else 5
        for _ in range(400):
            lo = bisect.bisect_left(zt.T, start - 3 * DAY)
            hi = bisect.bisect_right(zt.T, start + n * HOUR + 3 * DAY)
            if all(zt.off[i] == zt.off[i - 1] for i in range(max(1, lo), hi)):
                break
            start += DAY
        else:
            raise AssertionError(f"no transition-free window found for {zt.zone}")
        out.append((start, n))
    return out


# ------------------------------------------------------------------------------------------- W2
W2_VARIANTS = {
    "quick": [
        None,
        ["Europe/Paris", "2025-03-29 23:00", 6, "America/New_York", "2025-11-01 23:00", 5],
        ["America/Sao_Paulo", "2025-06-01 00:00", 4, "Asia/Tokyo", "2025-06-03 00:00", 3],
        ["Europe/London", "2025-10-25 22:00", 6, "Australia/Sydney", "2025-10-04 23:00", 6],
        ["America/Anchorage", "2025-03-09 01:00", 3, "Europe/Paris", "2025-03-30 01:00", 3],
    ],
}
W2_VARIANTS["thorough"] = W2_VARIANTS["quick"] + [
    ["Africa/Casablanca", "2025-02-22 23:00", 6, "America/Santiago", "2025-04-05 21:00", 6],
    ["Europe/Paris", "2025-10-25 23:00", 6, "America/New_York", "2025-03-08 23:00", 6],
    ["Pacific/Auckland", "2025-09-27 23:00", 6, "America/Havana", "2025-03-08 22:00", 6],
    ["Europe/Lisbon", "2026-03-28 22:00", 6, "America/Anchorage", "2026-11-01 00:00", 6],
]


def run_w2(task):
    from efmc import world as W
    w = W.family("W2")
    v = task.get("variant")
    if v is not None:
        for up, c, (zone, start, n) in (("up", "c", v[0:3]), ("up2", "c_b", v[3:6])):
            w["objects"][c]["attrs"]["timezone"] = ["tz", zone]
            w["objects"][up]["attrs"]["hourly_usage_journey_starts"] = W.H([1 << k for k in range(n)], start)
        # the storage chain is not C11's business and trips over float cancellation (DESIGN 2.3 defect 5) for some
        # start series: jobs of the variants store nothing
        for j in ("j1", "j2"):
            w["objects"][j]["attrs"]["data_stored"] = W.Q(0, "kilobyte")
    res = {"violations": [], "counters": {}, "digests": [], "tags": []}
    full = 1
    try:
        m = W.build(w)
    except Exception as ex:  # noqa -- a failure downstream of the conversion belongs to another property
        full = 0
        res["counters"]["w2_full_build_raised:" + type(ex).__name__] = 1
        m = W.build(w, order=[n for n in W.creation_order(w) if n != w["system"]])
        for up in ("up", "up2"):
            m.objs[up].update_utc_hourly_usage_journey_starts()
    n_cmp = 0
    for up, c in (("up", "c"), ("up2", "c_b")):
        zone = w["objects"][c]["attrs"]["timezone"][1]
        h = w["objects"][up]["attrs"]["hourly_usage_journey_starts"]
        start = ns_of(datetime.strptime(h[2], "%Y-%m-%d %H:%M"))
        zt = table(zone)
        tzname, stamps, vals = read_series(m.objs[up].utc_hourly_usage_journey_starts)
        n_cmp += 1
        res["digests"].append(hashlib.sha1(repr(("w2", zone, [(u - start, x) for u, x in zip(stamps, vals)])).encode()
                                           ).hexdigest()[:10])
        if h[1] == [float(1 << k) for k in range(len(h[1]))]:
            viol, _, tags = check_output(zone, start, len(h[1]), tzname, stamps, vals, {"on": "W2.UsagePattern"})
            res["tags"] = sorted(set(res["tags"]) | tags)
            for x in viol:
                x["detail"]["pattern"] = up
            res["violations"] += viol
        else:
            # arbitrary values: only for windows in which every local hour exists exactly once -> exact equality
            ref = reference_values(zt, start, h[1])
            assert all(admissible(zt, start + k * HOUR)[0] == "exists-once" for k in range(len(h[1])))
            if tzname != "UTC" or list(zip(stamps, vals)) != [(u, float(x)) for u, x in ref]:
                res["violations"].append({
                    "sig": {"clause": "w2-utc-starts-eq-reference", "on": "W2.UsagePattern",
                            "zone_kind": zt.window_kind(start, len(h[1]))},
                    "detail": {"pattern": up, "zone": zone, "local_start": h[2], "values": h[1], "tz": tzname,
                               "utc_hourly_usage_journey_starts": [[iso(u), x] for u, x in zip(stamps, vals)],
                               "reference": [[iso(u), float(x)] for u, x in ref]}})
    res["outcome"] = "w2-ok" if not res["violations"] else "w2-diff"
    res["counters"].update({"conversions": 0, "w2_patterns_compared": n_cmp, "cases": 0, "w2_full_builds": full})
    return res


def reference_values(zt, start, values):
    out = {}
    for k, v in enumerate(values):
        _, exact, _ = admissible(zt, start + k * HOUR)
        out[exact[0]] = out.get(exact[0], 0) + v
    return sorted(out.items())


# ------------------------------------------------------------------------------------------- tasks
def run_task(task):
    if not _lib:
        prepare()
    kind = task["kind"]
    if kind == "w2":
        return run_w2(task)
    zone = task["zone"]
    zt = table(zone)
    if kind == "case":
        cases = [(ns_of(datetime.strptime(task["start"], "%Y-%m-%d %H:%M")), task["n"])]
    else:
        cases = []
        for i in task.get("tidx", []):
            cases += cases_of_transition(zt, i)
        if task.get("free"):
            cases += free_windows(zt)
    res = {"violations": [], "counters": {"conversions": 0, "cases": 0}, "digests": set(), "tags": set()}
    seen = set()
    outcome = set()
    for start, n in cases:
        res["counters"]["cases"] += 1
        if (start, n) in seen:     # two transitions of one zone less than a few hours apart share windows
            continue
        seen.add((start, n))
        viol, dig, tags = check_case(zone, start, n)
        res["counters"]["conversions"] += 1
        res["digests"].add(dig)
        res["tags"] |= tags
        for v in viol:
            v["case"] = {"kind": "case", "zone": zone, "start": dt_of(start).strftime("%Y-%m-%d %H:%M"), "n": n}
            res["violations"].append(v)
            outcome.add(v["sig"]["clause"])
    res["counters"]["distinct_cases"] = len(seen)
    res["digests"] = sorted(res["digests"])
    res["tags"] = sorted(res["tags"])
    res["outcome"] = "ok" if not outcome else "+".join(sorted(outcome))
    return res


def make_tasks(tier):
    y0, y1 = YEARS[tier]
    per = TR_PER_TASK[tier]
    tasks, n_tr, zones_with_tr = [], 0, 0
    zones = list(_lib["pytz"].all_timezones)
    for z in zones:
        zt = table(z)
        tr = zt.offset_transitions(y0, y1)
        n_tr += len(tr)
        zones_with_tr += bool(tr)
        chunks = [tr[a:a + per] for a in range(0, len(tr), per)] or [[]]
        for j, ch in enumerate(chunks):
            tasks.append({"kind": "zone", "zone": z, "tidx": ch, "free": j == 0})
    for v in W2_VARIANTS[tier]:
        tasks.append({"kind": "w2", "variant": v})
    return tasks, {"zones": len(zones), "zones_with_offset_transitions_in_range": zones_with_tr,
                   "offset_transitions_in_range": n_tr}


def main(tier):
    prepare()
    run = report.Run(PROP, tier)
    tasks, space = make_tasks(tier)
    engine.start(run_task)
    t0 = time.time()
    results = engine.pmap(tasks, chunksize=1)
    engine.stop()
    timeouts = engine.check_results(results, run)
    outcomes, digests, tags = {}, set(), set()
    conversions = cases = distinct = w2 = 0
    samples = []
    for t, r in zip(tasks, results):
        if r.get("_timeout"):
            run.violation({"clause": "timeout"}, {"task": t, "detail": "task did not terminate", "size": 10 ** 6})
            continue
        outcomes[r["outcome"]] = outcomes.get(r["outcome"], 0) + 1
        digests.update(r.get("digests", []))
        tags.update(r.get("tags", []))
        c = r.get("counters", {})
        conversions += c.get("conversions", 0)
        cases += c.get("cases", 0)
        distinct += c.get("distinct_cases", 0)
        w2 += c.get("w2_patterns_compared", 0)
        for k, x in c.items():
            if k.startswith("w2_full"):
                run.count(k, x)
        for v in r["violations"]:
            tk = v.get("case") or t
            run.violation(v["sig"], {"task": tk, "detail": v["detail"], "size": tk.get("n", 0) if tk["kind"] == "case" else 0})
    # a few written-out cases (reference vs implementation)
    for zone, start, n in (("Europe/Paris", "2025-03-30 00:00", 5), ("Europe/Paris", "2025-10-26 00:00", 5),
                           ("Australia/Lord_Howe", "2025-10-05 00:00", 5), ("Asia/Kathmandu", "2025-01-15 00:00", 3),
                           ("America/St_Johns", "2025-11-02 00:00", 3), ("Antarctica/Casey", "2023-03-09 00:00", 5)):
        s = ns_of(datetime.strptime(start, "%Y-%m-%d %H:%M"))
        try:
            _, stamps, vals = convert(zone, s, n)
            got = [[iso(u), v] for u, v in zip(stamps, vals)]
        except Exception as ex:  # noqa
            got = f"raises {type(ex).__name__}"
        samples.append({"zone": zone, "local_start": start, "values": [1 << k for k in range(n)],
                        "window_kind": table(zone).window_kind(s, n), "convert_to_utc": got,
                        "reference_first_admissible": [[iso(u), float(v)] for u, v in reference(table(zone), s, n)]})
    y0, y1 = YEARS[tier]
    cov = dict(space)
    cov.update({
        "states": distinct + len(W2_VARIANTS[tier]), "transitions": conversions + w2,
        "traces_validated_against_impl": conversions + w2,
        "cases_enumerated_including_shared_windows": cases, "w2_patterns_compared": w2,
        "w2_variants": len(W2_VARIANTS[tier]),
        "samples": samples, "exhaustive": not timeouts,
        "distinct_outcomes": len(digests), "placement_tags_observed": sorted(tags), "task_outcomes": outcomes,
        "bounds": f"all {space['zones']} pytz.all_timezones x every UTC-offset transition with UTC year in "
                  f"{y0}..{y1} x window starts {list(OFFSETS_H)} h relative to the local wall time of the transition "
                  f"(floored to the hour) x lengths {list(LENGTHS)}; two transition-free windows per zone "
                  f"(26 h and 5 h, 2025); values 2**k; W2 with {len(W2_VARIANTS[tier])} zone/date variants",
        "explanation": "every case runs the real convert_to_utc and compares every output row with the admissible "
                       "instants computed from pytz's transition table by bisect (no pandas in the reference)",
        "enumeration_wall_s": round(time.time() - t0, 1)})
    return run.finish(cov, assumptions=[
        "local series are on whole local hours (the wall time of a transition is floored to the hour)",
        "repeated local hour: either of its instants is accepted; skipped local hour: the transition instant or an "
        "hourly instant at most 1 h away from it (DESIGN section 5 C11)",
        "the reference reads the same pytz table as pandas does, but searches it independently (bisect over all "
        "intervals within two days, no day-before/day-after shortcut)"])


if __name__ == "__main__":
    try:
        sys.exit(main(sys.argv[1] if len(sys.argv) > 1 else "quick"))
    except engine.CrashError as e:
        print("HARNESS-ERROR", e)
        sys.exit(2)
