"""C19 — results are independent of creation order, identifiers and hashing.

 (a) every schedule (set-iteration order) with <= k deviating rank groups under the hash seam;
 (b) every linear extension (up to a reported cap) of the creation-order DAG of W0 / W1;
 (c) every permutation of the order-irrelevant lists (system.usage_patterns, devices, jobs within a step);
 (d) the *unpatched* library (real uuid4, real __hash__) in fresh processes under PYTHONHASHSEED in {0..N}, each
     process building every world twice.
Oracle: all value snapshots of a world are equal (rel 1e-9; one rounding quantum for the library-rounded total).
"""
import itertools
import json
import os
import subprocess
import sys

import numpy as np

from efmc import boot, engine, report, world as W, snap as S, hist as H

PROP = "C19"
QUANTUM = {("sys", "total_footprint"): 1.0001e-4}     # rounded to 4 decimals of kg by the library


def prepare():
    boot.install_seams()


def to_json(snapshot):
    out = {}
    for (o, a), c in snapshot.items():
        out[f"{o}|{a}"] = c_to_json(c)
    return out


def c_to_json(c):
    if c[0] == "H":
        return ["H", c[1], bool(c[2]), [int(x) for x in c[3]], [float(x) for x in c[4]]]
    if c[0] == "D":
        return ["D", [[k, c_to_json(x)] for k, x in c[1]]]
    return list(c)


def c_from_json(j):
    if j[0] == "H":
        return ("H", j[1], j[2], np.asarray(j[3], dtype=np.int64), np.asarray(j[4], dtype=float))
    if j[0] == "D":
        return ("D", tuple((k, c_from_json(x)) for k, x in j[1]))
    return tuple(j)


def from_json(d):
    return {tuple(k.split("|")): c_from_json(v) for k, v in d.items()}


def compare(ref, other):
    """First differing key or None."""
    for k in sorted(set(ref) | set(other)):
        if k not in ref or k not in other:
            return k, "<absent>", "<absent>"
        atol = QUANTUM.get(k, S.ATOL)
        if not S.close(ref[k], other[k], S.RTOL, atol):
            return k, S.render(ref[k]), S.render(other[k])
    return None


def linear_extensions(w, cap):
    """Orders of creation compatible with dependencies (an object after everything it references)."""
    names = list(w["objects"])
    deps = {}
    for n in names:
        d = set()
        for v in w["objects"][n]["attrs"].values():
            if v[0] == "link":
                d.add(v[1])
            elif v[0] == "list":
                d.update(v[1])
        deps[n] = d
    out = []

    def rec(done, remaining):
        if len(out) >= cap:
            return
        if not remaining:
            out.append(list(done))
            return
        for n in remaining:
            if deps[n] <= set(done):
                rec(done + [n], [x for x in remaining if x != n])
    rec([], names)
    return out


def list_permutation_worlds(w):
    """Worlds in which one order-irrelevant list is permuted."""
    out = []
    for n, o in w["objects"].items():
        for a, v in o["attrs"].items():
            if v[0] == "list" and (o["cls"], a) in (("System", "usage_patterns"), ("UsagePattern", "devices"),
                                                    ("UsageJourneyStep", "jobs")) and len(v[1]) > 1:
                for p in itertools.permutations(v[1]):
                    if list(p) != list(v[1]):
                        out.append((f"{o['cls']}.{a}", W.apply_spec(w, ["list", n, a, list(p)])))
    return out


def run_task(task):
    kind = task["kind"]
    fam = task["world"]
    w = W.family(fam)
    ref = S.value_snapshot(W.build(w).system)
    res = {"violations": [], "counters": {}, "outcome": "ok", "n": 0, "digests": []}
    for case in task["cases"]:
        if kind == "schedule":
            m = W.build(w, perms=case)
            what = "deviating:" + "+".join(sorted(case))
        elif kind == "order":
            m = W.build(w, order=case)
            what = "creation-order"
        elif kind == "listperm":
            w2 = W.apply_spec(w, case)
            m = W.build(w2)
            what = f"{w['objects'][case[1]]['cls']}.{case[2]}"
        snap = S.value_snapshot(m.system)
        res["n"] += 1
        res["digests"].append(S.digest(snap, 7))
        d = compare(ref, snap)
        if d is not None:
            o = m.objs.get(d[0][0])
            res["violations"].append({"sig": {"clause": "depends-on-" + kind, "what": what,
                                              "where": S.class_attr(S.unwrap(o), d[0][1]) if o is not None else str(d[0])},
                                      "detail": {"case": case, "first_difference": [str(x)[:300] for x in d]},
                                      "case": case})
    return res


CHILD = r'''
import json, sys
from efmc import boot, world as W, snap as S
boot.core()
from checks import c19
out = {}
for fam in sys.argv[1:]:
    for rep in (0, 1):
        m = W.build(W.family(fam))
        out[f"{fam}#{rep}"] = c19.to_json(S.value_snapshot(m.system))
        if rep == 0:
            ups = [x.name for x in m.objs[next(n for n in m.objs if type(m.objs[n]).__name__ == "Job")].usage_patterns]
            out[f"{fam}#order"] = ups
print("C19CHILD" + json.dumps(out))
'''


def run_unpatched(seeds, fams):
    """Fresh processes, real uuid4 and real hashing."""
    procs = []
    results = {}
    env_base = dict(os.environ, PYTHONPATH=report.VERIF, PYTHONDONTWRITEBYTECODE="1")
    pending = list(seeds)
    running = []
    maxpar = engine.NPROC
    while pending or running:
        while pending and len(running) < maxpar:
            s = pending.pop(0)
            p = subprocess.Popen([sys.executable, "-c", CHILD] + fams, env=dict(env_base, PYTHONHASHSEED=str(s)),
                                 stdout=subprocess.PIPE, stderr=subprocess.PIPE, text=True, cwd=report.VERIF)
            running.append((s, p))
        s, p = running.pop(0)
        out, err = p.communicate(timeout=900)
        line = [l for l in out.splitlines() if l.startswith("C19CHILD")]
        if not line:
            results[s] = {"_error": (err or out)[-400:]}
        else:
            results[s] = json.loads(line[0][len("C19CHILD"):])
    return results


TIERS = {"quick": {"worlds": ["W1", "W1c", "W2", "W3"], "dev": {"W1": 2, "W1c": 2, "W2": 2, "W3": 1}, "orders": {"W0": 600, "W1": 300},
                   "seeds": 16},
         "thorough": {"worlds": ["W1", "W1c", "W2", "W3"], "dev": {"W1": 3, "W1c": 3, "W2": 3, "W3": 2}, "orders": {"W0": 5000, "W1": 3000},
                      "seeds": 128}}


def main(tier):
    prepare()
    cfg = TIERS[tier]
    run = report.Run(PROP, tier)
    engine.start(run_task)
    tasks = []
    for fam in cfg["worlds"]:
        w = W.family(fam)
        scheds = H.perm_sets(w, max_deviations=cfg["dev"][fam])
        for i in range(0, len(scheds), 12):
            tasks.append({"kind": "schedule", "world": fam, "cases": scheds[i:i + 12]})
        perms_worlds = list_permutation_worlds(w)
        cases = []
        for what, w2 in perms_worlds:
            # encode as the list letter that produces w2 from w
            for n, o in w2["objects"].items():
                for a, v in o["attrs"].items():
                    if v != w["objects"][n]["attrs"][a]:
                        cases.append(["list", n, a, v[1]])
        for i in range(0, len(cases), 12):
            tasks.append({"kind": "listperm", "world": fam, "cases": cases[i:i + 12]})
    caps = {}
    for fam, cap in cfg["orders"].items():
        w = W.family(fam)
        exts = linear_extensions(w, cap)
        caps[fam] = {"cap": cap, "enumerated": len(exts), "capped": len(exts) >= cap}
        for i in range(0, len(exts), 12):
            tasks.append({"kind": "order", "world": fam, "cases": exts[i:i + 12]})
    results = engine.pmap(tasks)
    engine.check_results(results, run)
    engine.stop()
    n = 0
    digests = set()
    by_kind = {}
    for t, r in zip(tasks, results):
        if r.get("_timeout"):
            run.violation({"clause": "timeout", "kind": t["kind"]}, {"task": t, "size": 1})
            continue
        n += r["n"]
        by_kind[t["kind"]] = by_kind.get(t["kind"], 0) + r["n"]
        digests.update(r["digests"])
        for v in r["violations"]:
            run.violation(v["sig"], {"task": dict(t, cases=[v["case"]]), "detail": v["detail"], "size": 1})
    # (d) unpatched processes
    seeds = list(range(cfg["seeds"]))
    un = run_unpatched(seeds, cfg["worlds"])
    orders_seen = {}
    refs = {}
    builds = 0
    for s in seeds:
        r = un[s]
        if "_error" in r:
            print("HARNESS-ERROR unpatched child failed:", r["_error"])
            return 2
        for key, snapj in r.items():
            if key.endswith("#order"):
                orders_seen.setdefault(key, set()).add(tuple(snapj))
                continue
            fam = key.split("#")[0]
            snap = from_json(snapj)
            builds += 1
            if fam not in refs:
                refs[fam] = (s, snap)
                continue
            d = compare(refs[fam][1], snap)
            if d is not None:
                run.violation({"clause": "depends-on-process-hash-seed-or-ids", "world": fam, "where": f"{d[0][1]}"},
                              {"task": None, "detail": {"seed_ref": refs[fam][0], "seed": s, "first_difference": [str(x)[:300] for x in d],
                                                        "how": "PYTHONHASHSEED=<seed> python -c <CHILD in checks/c19.py>"},
                               "size": 1})
    cov = {"states": n + builds, "transitions": n + builds, "traces_validated_against_impl": n + builds,
           "samples": [tasks[0]["cases"][:2], tasks[-1]["cases"][:1]], "exhaustive": not any(c["capped"] for c in caps.values()),
           "builds_by_kind": by_kind, "unpatched_processes": len(seeds), "unpatched_builds": builds,
           "creation_orders": caps, "distinct_outcomes": len(digests),
           "set_orders_observed_in_unpatched_processes": {k: sorted(map(list, v)) for k, v in orders_seen.items()},
           "bounds": f"schedules with <= {cfg['dev']} deviating rank groups; linear extensions capped at {cfg['orders']}; "
                     f"all permutations of usage_patterns / devices / jobs-in-a-step; PYTHONHASHSEED 0..{cfg['seeds'] - 1}"}
    return run.finish(cov, assumptions=[
        "tolerance rel 1e-9; System.total_footprint (rounded to 4 decimals of kg by the library) within one quantum",
        "distinct_outcomes counts value digests at 7 significant digits: >1 is expected only through float re-association"],
        )


if __name__ == "__main__":
    try:
        sys.exit(main(sys.argv[1] if len(sys.argv) > 1 else "quick"))
    except engine.CrashError as e:
        print("HARNESS-ERROR", e)
        sys.exit(2)
