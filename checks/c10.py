"""C10 — results do not depend on the units inputs are expressed in.

Bounded exhaustive enumeration on the real library: for every quantity-valued input (scalar "q" and hourly "h") of
every object reachable from the system in the worlds W1, W3, W4, and for every unit of a per-dimension list, the
input is re-expressed in that unit (the magnitude is rescaled so that the *physical* value is the same) — one input
at a time, pairs of inputs (thorough), and all inputs at once — and the model is evaluated

  fresh   a fresh build of the re-expressed world,
  live    ``setattr(obj, attr, re-expressed value)`` on a built baseline model (the ModelingUpdate path; an
          assignment that pint finds equal to the current value is skipped by the library as a no-op),
  live2   ``setattr(obj, attr, 2 x value)`` then ``setattr(obj, attr, re-expressed original value)``: the update
          path is forced to recompute from the re-expressed value even when pint finds it equal to the original,
  probe   (no oracle; vacuity guard) the input is given a physically *different* value (x 1.1, same unit): the
          result is expected to differ from the baseline, otherwise the input is inert in that world and its
          unit cases show nothing.  (Swapping the unit without rescaling would be the natural probe, but "90 year"
          of request duration does not terminate in reasonable time.)

Oracle: ``snap.value_snapshot`` of the system equals the baseline's (relative 1e-9; absolute floor 1e-12 in base
units plus 1e-9 of the largest quantity of the same base unit held by the same object, so that the residue of a
cumulative sum returning to zero is not mistaken for a physical difference — unit mistakes are factors >= 10).  A build / assignment that raises where the baseline does not is a violation as well
(clause ``rejected-after-unit-change``).

Reference model (kept boring): a table of *exact rational* conversion factors for the unit atoms of each family
(validated against pint at start-up).  The re-expressed magnitude is the correctly rounded float of the exact
rational value, so it is the best representable re-expression (what a user typing "180 minute" instead of
"3 hour" writes).  A re-expression is *exact* when the rational physical values coincide; an inexact one differs
physically by at most one ulp (1.1e-16 relative).  Equality with the baseline is demanded

  * always for exact re-expressions;
  * for inexact ones unless the model is *discontinuous* at that input (established by the real code: the fresh
    build with the input nudged by a relative +-1e-13 differs from the baseline, e.g. a duration sitting exactly
    on an hour boundary that is rounded up to full hours) — those cases are counted
    (``skipped_inexact_at_discontinuity``), not judged, because there a one-ulp different input legitimately
    gives another result.  The excuse is narrow: the observed result must *be* one of the two one-sided results
    (what the real code returns for the input nudged up or down); anything else is still a violation.
"""
import itertools
import json
import os
import sys
from fractions import Fraction

import numpy as np

from efmc import boot, engine, report, world as W, snap as S

PROP = "C10"
NUDGE = 1e-13
MODES = ("fresh", "live", "live2", "probe")

# ------------------------------------------------------------------------------------------------ unit families
# atom -> exact factor to the family base.  "core" = the per-dimension list of DESIGN §5 C10, "extra" = thorough only.
FAMILY = {
    "information": {"core": [("byte", 8), ("kilobyte", 8 * 10 ** 3), ("megabyte", 8 * 10 ** 6),
                             ("gigabyte", 8 * 10 ** 9), ("terabyte", 8 * 10 ** 12)],
                    "extra": [("bit", 1), ("mebibyte", 8 * 2 ** 20)]},
    "time": {"core": [("second", 1), ("minute", 60), ("hour", 3600), ("day", 86400), ("year", 31557600)],
             "extra": [("millisecond", Fraction(1, 1000)), ("week", 604800)]},
    "power": {"core": [("watt", 1), ("kilowatt", 1000), ("milliwatt", Fraction(1, 1000))],
              "extra": [("megawatt", 10 ** 6)]},
    "energy": {"core": [("joule", 1), ("watt_hour", 3600), ("kilowatt_hour", 3600 * 10 ** 3)],
               "extra": [("megawatt_hour", 3600 * 10 ** 6)]},
    "mass": {"core": [("gram", 1), ("kilogram", 1000), ("metric_ton", 10 ** 6)],
             "extra": [("milligram", Fraction(1, 1000))]},
    "cpu": {"core": [("cpu_core", 1), ("kilocpu_core", 1000), ("millicpu_core", Fraction(1, 1000))], "extra": []},
    "gpu": {"core": [("gpu", 1), ("kilogpu", 1000), ("milligpu", Fraction(1, 1000))], "extra": []},
    "dimensionless": {"core": [("dimensionless", 1), ("percent", Fraction(1, 100))], "extra": []},
}
ATOM = {}
for _f, _d in FAMILY.items():
    for _k in ("core", "extra"):
        for _a, _x in _d[_k]:
            ATOM[_a] = (_f, Fraction(_x))


def family_list(fam, tier):
    d = FAMILY[fam]
    return [a for a, _ in d["core"]] + ([a for a, _ in d["extra"]] if tier == "thorough" else [])


_atoms_cache = {}


def atoms_of(unit_str):
    """{atom: exponent} of a unit string, by pint's own parser ('dimensionless' is kept as an explicit atom)."""
    r = _atoms_cache.get(unit_str)
    if r is None:
        from efootprint.constants.units import u
        cont = u.Unit(unit_str)._units
        r = {str(k): int(v) for k, v in cont.items()}
        for k, v in cont.items():
            if int(v) != v:
                raise ValueError(f"non-integer exponent in {unit_str}")
        if not r:
            r = {"dimensionless": 1}
        for a in r:
            if a not in ATOM:
                raise KeyError(f"unit atom {a!r} (from {unit_str!r}) is in no family table of checks/c10.py")
        _atoms_cache[unit_str] = r
    return dict(r)


def factor(atoms):
    f = Fraction(1)
    for a, e in atoms.items():
        f *= ATOM[a][1] ** e
    return f


def unit_string(atoms):
    """Canonical pint rendering of an atom dict."""
    from efootprint.constants.units import u
    atoms = {a: e for a, e in atoms.items() if e != 0 and a != "dimensionless"}
    if not atoms:
        return "dimensionless"
    s = str(u.Unit(" * ".join(f"{a} ** {e}" for a, e in sorted(atoms.items()))))
    return s


def replace_atom(atoms, old, new):
    out = dict(atoms)
    e = out.pop(old)
    out[new] = out.get(new, 0) + e
    return out


def alternatives(unit_str, tier):
    """All other unit strings of the same families (single-atom substitutions, 'diagonal' substitutions of every
    atom at once, and the dimensionless spellings of a time/time ratio), canonical and de-duplicated."""
    atoms = atoms_of(unit_str)
    f0 = factor(atoms)
    own = unit_string(atoms)
    cands = []
    for a in sorted(atoms):
        fam = ATOM[a][0]
        for b in family_list(fam, tier):
            if b != a:
                cands.append(replace_atom(atoms, a, b))
    if len(atoms) > 1:
        n = max(len(family_list(ATOM[a][0], tier)) for a in atoms)
        for k in range(1, n):
            new = {}
            for a, e in atoms.items():
                fl = family_list(ATOM[a][0], tier)
                b = fl[(fl.index(a) + k) % len(fl)] if a in fl else fl[k % len(fl)]
                new[b] = new.get(b, 0) + e
            cands.append(new)
    fams = {ATOM[a][0] for a in atoms}
    if fams == {"time"} and sum(atoms.values()) == 0:          # hour / day
        cands += [{"dimensionless": 1}, {"percent": 1}]
    if fams == {"dimensionless"} and tier == "thorough":
        cands += [{"hour": 1, "day": -1}]
    out, seen = [], {own}
    for c in cands:
        s = unit_string(c)
        if s not in seen:
            seen.add(s)
            out.append(s)
    del f0
    return out


def rescale(m, old_unit, new_unit):
    """(correctly rounded re-expressed magnitude, exact?)"""
    fo, fn = factor(atoms_of(old_unit)), factor(atoms_of(new_unit))
    exact_phys = Fraction(m) * fo
    m2 = float(exact_phys / fn)
    return m2, Fraction(m2) * fn == exact_phys


def reexpress(spec, new_unit):
    """(re-expressed value spec, exact?) — physically the same value in another unit."""
    if spec[0] == "q":
        m2, ex = rescale(spec[1], spec[2], new_unit)
        return ["q", m2, new_unit], ex
    if spec[0] == "h":
        pairs = [rescale(v, spec[3], new_unit) for v in spec[1]]
        return ["h", [p[0] for p in pairs], spec[2], new_unit], all(p[1] for p in pairs)
    raise ValueError(spec)


def spec_unit(spec):
    return spec[2] if spec[0] == "q" else spec[3]


def same_physical_value(a, b):
    """Exact rational comparison of two value specs."""
    if a[0] != b[0]:
        return False
    if a[0] == "q":
        return Fraction(a[1]) * factor(atoms_of(a[2])) == Fraction(b[1]) * factor(atoms_of(b[2]))
    fa, fb = factor(atoms_of(a[3])), factor(atoms_of(b[3]))
    return a[2] == b[2] and len(a[1]) == len(b[1]) and all(Fraction(x) * fa == Fraction(y) * fb
                                                           for x, y in zip(a[1], b[1]))


def within_one_ulp(a, b):
    """The harness only ever submits re-expressions whose physical value is within 4e-16 (relative) of the original."""
    fa, fb = factor(atoms_of(spec_unit(a))), factor(atoms_of(spec_unit(b)))
    xs = [a[1]] if a[0] == "q" else a[1]
    ys = [b[1]] if b[0] == "q" else b[1]
    if len(xs) != len(ys):
        return False
    for x, y in zip(xs, ys):
        px, py = Fraction(x) * fa, Fraction(y) * fb
        if px != py and abs(px - py) > Fraction(4, 10 ** 16) * max(abs(px), abs(py)):
            return False
    return True


def scaled(spec, k):
    if spec[0] == "q":
        return ["q", spec[1] * k, spec[2]]
    return ["h", [v * k for v in spec[1]], spec[2], spec[3]]


def is_zero(spec):
    return all(v == 0 for v in ([spec[1]] if spec[0] == "q" else spec[1]))


def self_check_tables():
    """Every exact factor of the tables agrees with pint (the library's registry); every atom is parsed by pint."""
    from efootprint.constants.units import u
    for fam, d in FAMILY.items():
        base = (d["core"] + d["extra"])[0]
        for a, x in d["core"] + d["extra"]:
            got = u.Quantity(1.0, a).to(base[0]).magnitude
            want = float(Fraction(x) / Fraction(base[1]))
            if abs(got - want) > 1e-14 * abs(want):
                raise AssertionError(f"factor table disagrees with pint for {a}: {got} vs {want}")
            if atoms_of(a) != {a: 1}:
                raise AssertionError(f"pint does not keep {a} as one atom: {atoms_of(a)}")


# ------------------------------------------------------------------------------------------------ comparison
def scales(snapshot):
    """{(object name, base unit): largest magnitude held by that object in that base unit}."""
    sc = {}

    def walk(o, c):
        if c[0] == "Q":
            sc[(o, c[1])] = max(sc.get((o, c[1]), 0.0), abs(c[2]))
        elif c[0] == "H" and len(c[4]):
            sc[(o, c[1])] = max(sc.get((o, c[1]), 0.0), float(np.nanmax(np.abs(c[4]))))
        elif c[0] == "D":
            for _, x in c[1]:
                walk(o, x)
    for (o, _), c in snapshot.items():
        walk(o, c)
    return sc


def close(a, b, obj, sc):
    """snap.close with an absolute floor that follows the scale of the object's quantities of the same base unit
    (1e-9 of the largest one in the baseline): a cumulative sum that returns to zero leaves a residue of the order of
    eps x the operands, which is float noise and not a physical difference.  Unit mistakes are factors >= 10."""
    if a[0] != b[0]:
        return False
    t = a[0]
    if t == "Q":
        floor = S.ATOL + S.RTOL * sc.get((obj, a[1]), 0.0)
        return a[1] == b[1] and abs(a[2] - b[2]) <= floor + S.RTOL * max(abs(a[2]), abs(b[2]))
    if t == "H":
        if a[1] != b[1] or a[2] != b[2] or len(a[3]) != len(b[3]) or not np.array_equal(a[3], b[3]):
            return False
        x, y = a[4], b[4]
        if np.isnan(x).any() or np.isnan(y).any():
            return S.close(a, b)
        floor = S.ATOL + S.RTOL * sc.get((obj, a[1]), 0.0)
        return bool(np.all(np.abs(x - y) <= floor + S.RTOL * np.maximum(np.abs(x), np.abs(y))))
    if t == "D":
        return len(a[1]) == len(b[1]) and all(k1 == k2 and close(x, y, obj, sc)
                                              for (k1, x), (k2, y) in zip(a[1], b[1]))
    return S.close(a, b)


def diff(s1, s2, sc):
    """List of (key, rendered a, rendered b) for the keys whose values differ (keys are (object, attribute))."""
    out = []
    for k in sorted(set(s1) | set(s2), key=repr):
        if k not in s1:
            out.append((k, "<absent>", S.render(s2[k])))
        elif k not in s2:
            out.append((k, S.render(s1[k]), "<absent>"))
        elif not close(s1[k], s2[k], k[0], sc):
            out.append((k, S.render(s1[k]), S.render(s2[k])))
    return out


# ------------------------------------------------------------------------------------------------ execution
_base = {}
_disc = {}
BUILDER_CLASSES = {"GPUServer", "BoaviztaCloudServer", "VideoStreaming", "WebApplication", "GenAIModel",
                   "VideoStreamingJob", "WebApplicationJob", "GenAIJob"}


def prepare():
    boot.all_classes()
    boot.install_seams()
    self_check_tables()


def warm():
    boot.warm_up()
    for fam in ("W1", "W3", "W4"):
        baseline(fam)


def baseline(fam):
    r = _base.get(fam)
    if r is None:
        m = W.build(W.family(fam), closure_only=True)
        objs = S.system_objects(m.system)
        snap0 = S.value_snapshot(m.system, objs)
        r = {"snap": snap0, "scales": scales(snap0), "rank": S.canonical_rank(objs),
             "cls_attr": {(o.name, a): S.class_attr(o, a) for o in objs for a in o.calculated_attributes}}
        _base[fam] = r
    return r


def inputs_of(fam):
    """[(obj, attr, spec)] for every quantity / hourly input of the objects reachable from the system."""
    w = W.family(fam)
    out = []
    for n in W.reachable(w):
        for a, v in w["objects"][n]["attrs"].items():
            if v[0] in ("q", "h"):
                out.append((n, a, v))
    return out


def with_subs(w, subs):
    for obj, attr, spec in subs:
        w = W.apply_spec(w, ["set", obj, attr, spec])
    return w


def fresh(w):
    """('ok', snapshot) | ('raised', type, message) of a fresh build of the forward closure of the system."""
    try:
        m = W.build(w, closure_only=True)
        return ("ok", S.value_snapshot(m.system))
    except Exception as ex:  # noqa
        return ("raised", type(ex).__name__, str(ex)[:300])


def live(w0, letters):
    """Apply the letters one after the other on a freshly built baseline model."""
    m = W.build(w0, closure_only=True)
    for i, e in enumerate(letters):
        try:
            W.apply_live(m, e)
        except Exception as ex:  # noqa
            return ("raised", type(ex).__name__, str(ex)[:300], i)
    return ("ok", S.value_snapshot(m.system))


def discontinuous(fam, obj, attr, cnt):
    """Is the (fresh-build) model discontinuous at the baseline value of this input?  Decided by the real code:
    the input nudged by a relative +-1e-13 gives a result that differs from the baseline (or is refused).
    Returns the list of one-sided results that differ from the baseline (empty = continuous)."""
    k = (fam, obj, attr)
    r = _disc.get(k)
    if r is None:
        w0 = W.family(fam)
        spec = w0["objects"][obj]["attrs"][attr]
        r = []
        for s in (1 + NUDGE, 1 - NUDGE):
            cnt["builds"] += 1
            fr = fresh(with_subs(w0, [[obj, attr, scaled(spec, s)]]))
            if fr[0] != "ok" or diff(fr[1], baseline(fam)["snap"], baseline(fam)["scales"]):
                r.append(fr)
        _disc[k] = r
    return r


def is_one_sided_result(res, limits, sc):
    """The observed result is what the real code gives for the input one ulp-ish to the left or right."""
    for lim in limits:
        if lim[0] != "ok" and res[0] != "ok":
            return True
        if lim[0] == "ok" and res[0] == "ok" and not diff(res[1], lim[1], sc):
            return True
    return False


def first_divergent(fam, d):
    b = baseline(fam)
    first = min(d, key=lambda t: (b["rank"].get(t[0], (99, 99)), t[0]))
    return b["cls_attr"].get(first[0], f"?.{first[0][1]}"), first


def letters_for(mode, w0, subs):
    sets = [["set", o, a, s] for o, a, s in subs]
    if mode == "live":
        return [sets[0]] if len(sets) == 1 else [["multi", sets]]
    raise ValueError(mode)


def evaluate(fam, mode, w0, subs, cnt):
    """Execute one re-expressed configuration; returns ('ok', snapshot) / ('raised', ...) / ('skip', why)."""
    if mode in ("fresh", "probe"):
        cnt["builds"] += 1
        return fresh(with_subs(w0, subs))
    if mode == "live":
        cnt["builds"] += 1
        cnt["assignments"] += 1
        return live(w0, letters_for("live", w0, subs))
    if mode == "live2":
        obj, attr, spec = subs[0]
        orig = w0["objects"][obj]["attrs"][attr]
        for k in (2.0, 0.5):
            cnt["builds"] += 1
            cnt["assignments"] += 2
            r = live(w0, [["set", obj, attr, scaled(orig, k)], ["set", obj, attr, spec]])
            if r[0] == "ok" or r[3] == 1:
                return r
        return ("skip", "first-step-refused")
    raise ValueError(mode)


def judge(fam, mode, w0, subs, cnt):
    """-> (outcome, [violations], digest)"""
    base = baseline(fam)["snap"]
    sc = baseline(fam)["scales"]
    cls = lambda o: w0["objects"][o]["cls"]  # noqa: E731
    res = evaluate(fam, mode, w0, subs, cnt)
    if res[0] == "skip":
        return "skipped:" + res[1], [], None
    if mode == "probe":
        if res[0] != "ok":
            return "probe-refused", [], "raised:" + res[1]
        d = diff(res[1], base, sc)
        return ("probe-differs" if d else "probe-inert"), [], S.digest(res[1], 8)
    cnt["compared"] += 1
    d = diff(res[1], base, sc) if res[0] == "ok" else None
    if res[0] == "ok" and not d:
        return "equal", [], S.digest(res[1], 8)

    def violation(vsubs, vres, vd, note=None):
        if len(vsubs) == 1:
            inp = f"{cls(vsubs[0][0])}.{vsubs[0][1]}"
        elif len(vsubs) == 2:
            inp = "pair:" + "+".join(sorted(f"{cls(o)}.{a}" for o, a, _ in vsubs))
        else:
            inp = "all-inputs-at-once"
        if vres[0] != "ok":
            sig = {"clause": "rejected-after-unit-change", "mode": mode, "input": inp, "exception": vres[1]}
            det = {"message": vres[2]}
        else:
            ca, first = first_divergent(fam, vd)
            sig = {"clause": "value-eq-baseline", "mode": mode, "input": inp, "first_divergent": ca}
            det = {"n_divergent": len(vd), "first": [list(first[0]), first[1], first[2]],
                   "all_divergent_attrs": sorted({f"{k[0]}.{k[1]}" for k, _, _ in vd})[:40]}
        det["re_expressed"] = [[o, a, w0["objects"][o]["attrs"][a], "->", s] for o, a, s in vsubs][:6]
        if note:
            det["note"] = note
        return {"sig": sig, "detail": det, "subs": vsubs}

    def control_explains(vsubs, vres):
        """live2 only: the same two assignments with the original spelling give the same (non-baseline) result:
        the divergence is staleness of the update path (C01's business), not unit dependence."""
        if mode != "live2" or vres[0] != "ok":
            return False
        o, a, _ = vsubs[0]
        orig = w0["objects"][o]["attrs"][a]
        ctrl = evaluate(fam, "live2", w0, [[o, a, orig]], cnt)
        return ctrl[0] == "ok" and not diff(vres[1], ctrl[1], sc)

    inexact = [s for s in subs if not same_physical_value(s[2], w0["objects"][s[0]]["attrs"][s[1]])]
    if not inexact:
        if control_explains(subs, res):
            return "stale-update-path(control-equal)", [], S.digest(res[1], 8)
        return "violation", [violation(subs, res, d)], None
    if len(subs) == 1:
        if is_one_sided_result(res, discontinuous(fam, subs[0][0], subs[0][1], cnt), sc):
            return "skipped_inexact_at_discontinuity", [], None
        if control_explains(subs, res):
            return "stale-update-path(control-equal)", [], S.digest(res[1], 8)
        return "violation", [violation(subs, res, d)], None
    # several inputs, some inexact: leave the inexact inputs that sit on a discontinuity in their original spelling
    keep = [s for s in subs if s not in inexact or not discontinuous(fam, s[0], s[1], cnt)]
    if len(keep) == len(subs):
        return "violation", [violation(subs, res, d)], None
    res2 = evaluate(fam, mode, w0, keep, cnt)
    cnt["compared"] += 1
    d2 = diff(res2[1], base, sc) if res2[0] == "ok" else None
    if res2[0] == "ok" and not d2:
        return "equal-after-dropping-inexact-at-discontinuity", [], S.digest(res2[1], 8)
    return "violation", [violation(keep, res2, d2, note="inexact re-expressions at discontinuities left unchanged")], None


def run_task(task):
    fam = task["world"]
    w0 = W.family(fam)
    cnt = {"builds": 0, "assignments": 0, "compared": 0}
    per_case, viols = [], []
    for case in task["cases"]:
        mode, subs = case["mode"], case["subs"]
        if mode != "probe":
            for o, a, s in subs:    # the harness never submits a physically different value as "the same"
                if not within_one_ulp(s, w0["objects"][o]["attrs"][a]):
                    raise AssertionError(f"harness bug: {o}.{a} {s} is not the value of the world")
        outcome, vs, dg = judge(fam, mode, w0, subs, cnt)
        per_case.append({"outcome": outcome, "digest": dg, "violations": vs})
        viols += vs
    outs = sorted({c["outcome"] for c in per_case})
    return {"outcome": "+".join(outs), "violations": [{"sig": v["sig"], "detail": v["detail"]} for v in viols],
            "counters": cnt, "per_case": per_case}


# ------------------------------------------------------------------------------------------------ enumeration
def pick(alts, k, r):
    """k alternatives spread over the list, rotated by r (deterministic)."""
    n = len(alts)
    if n <= k:
        return list(alts)
    return [alts[i] for i in sorted({(r + (j * n) // k) % n for j in range(k)})]


def enumerate_cases(tier):
    """-> [(world, case)], plus bookkeeping for the evidence."""
    cases, info = [], {"inputs": {}, "alternatives": {}, "units_used": {}, "exact": 0, "inexact": 0}
    for fam in ("W1", "W3", "W4"):
        ins = inputs_of(fam)
        w0 = W.family(fam)
        single = ins
        if tier == "quick" and fam == "W4":     # full treatment for the builder classes, one fresh build for the rest
            full = {(o, a) for o, a, s in ins if w0["objects"][o]["cls"] in BUILDER_CLASSES}
        else:
            full = {(o, a) for o, a, s in ins}
        info["inputs"][fam] = {"all": len(ins), "full_treatment": len(full)}
        n_alt = 0
        for r, (o, a, s) in enumerate(single):
            alts = alternatives(spec_unit(s), tier)
            n_alt += len(alts)
            # quick: a pure duration also gets the thorough-only time units (ms, week) in a fresh build: conversions of
            # whole hours from milliseconds are inexact and sit on the ceil / floor boundaries of the hourly model
            boundary = []
            if tier == "quick" and set(atoms_of(spec_unit(s))) <= {a_ for a_, _ in FAMILY["time"]["core"]} \
                    and sum(atoms_of(spec_unit(s)).values()) == 1:
                boundary = [x for x in alternatives(spec_unit(s), "thorough") if x not in alts]
                n_alt += len(boundary)
            if tier == "quick" and (o, a) not in full:
                plan = [("fresh", pick(alts, 1, r) + boundary)]
            elif tier == "quick":
                plan = [("fresh", pick(alts, 3, r) + boundary), ("live", pick(alts, 1, r + 1)),
                        ("live2", pick(alts, 1, r + 2)),
                        ("probe", pick(alts, 1, r))]
            else:
                plan = [("fresh", alts), ("live", alts), ("live2", alts), ("probe", pick(alts, 1, r))]
            for mode, us in plan:
                for un in us:
                    if mode == "probe":
                        sub = [o, a, scaled(s, 1.1)]
                    else:
                        if mode == "live2" and is_zero(s):
                            continue           # 2 x 0 = 0: there is no first step
                        sp, ex = reexpress(s, un)
                        sub = [o, a, sp]
                        info["exact" if ex else "inexact"] += 1
                        for at in atoms_of(un):
                            info["units_used"][at] = info["units_used"].get(at, 0) + 1
                    cases.append((fam, {"mode": mode, "subs": [sub]}))
        info["alternatives"][fam] = n_alt
        # all inputs at once: the k-th alternative of every input, for every k
        allalts = [(o, a, s, alternatives(spec_unit(s), tier)) for o, a, s in ins]
        kmax = max(len(x[3]) for x in allalts)
        for k in range(kmax if tier == "thorough" else min(kmax, 5)):
            subs = [[o, a, reexpress(s, al[k % len(al)])[0]] for o, a, s, al in allalts if al]
            for mode in ("fresh", "live"):
                cases.append((fam, {"mode": mode, "subs": subs}))
        # pairs of inputs (thorough): one alternative each, rotating
        if tier == "thorough":
            for (i, x), (j, y) in itertools.combinations(enumerate(allalts), 2):
                if not x[3] or not y[3]:
                    continue
                subs = [[x[0], x[1], reexpress(x[2], x[3][(i + j) % len(x[3])])[0]],
                        [y[0], y[1], reexpress(y[2], y[3][(i * 7 + j) % len(y[3])])[0]]]
                cases.append((fam, {"mode": "fresh", "subs": subs}))
    return cases, info


def describe(fam, case, outcome):
    w0 = W.family(fam)
    subs = case["subs"]
    if len(subs) <= 2:
        what = "; ".join(f"{o}.{a}: {render_spec(w0['objects'][o]['attrs'][a])} -> {render_spec(s)}" for o, a, s in subs)
    else:
        o, a, s = subs[0]
        what = (f"{len(subs)} inputs at once, e.g. {o}.{a}: {render_spec(w0['objects'][o]['attrs'][a])} -> "
                f"{render_spec(s)}")
    return {"world": fam, "mode": case["mode"], "re_expression": what, "outcome": outcome}


def render_spec(s):
    if s[0] == "q":
        return f"{s[1]!r} {s[2]}"
    return f"{s[1]} {s[3]}"


def main(tier):
    prepare()
    run = report.Run(PROP, tier)
    cases, info = enumerate_cases(tier)
    engine.start(run_task, warm=warm)
    # group ~8 single cases (or 1 many-input case) of one world per task
    tasks, cur = [], {}
    for fam, case in cases:
        if len(case["subs"]) > 2:
            tasks.append({"world": fam, "cases": [case], "_timeout": 600})
            continue
        t = cur.get(fam)
        if t is None or len(t["cases"]) >= 8:
            t = {"world": fam, "cases": [], "_timeout": 600}
            cur[fam] = t
            tasks.append(t)
        t["cases"].append(case)
    results = engine.pmap(tasks)
    timeouts = engine.check_results(results, run)
    engine.stop()
    for r in timeouts:
        run.violation({"clause": "timeout", "world": r["task"]["world"]},
                      {"task": r["task"], "detail": "execution did not terminate within the alarm", "size": 99})
    outcomes, by_mode, digests, samples, seen_sample = {}, {}, set(), [], set()
    inert, skipped, stale = [], [], []
    tot = {"builds": 0, "assignments": 0, "compared": 0}
    states = set()
    for t, r in zip(tasks, results):
        if r.get("_timeout"):
            continue
        for k in tot:
            tot[k] += r["counters"][k]
        for case, pc in zip(t["cases"], r["per_case"]):
            oc = pc["outcome"]
            outcomes[oc] = outcomes.get(oc, 0) + 1
            n_subs = len(case["subs"])
            bm = by_mode.setdefault(case["mode"] + {1: "", 2: "/pair"}.get(n_subs, "/all-at-once"), {})
            bm[oc] = bm.get(oc, 0) + 1
            states.add(json.dumps([t["world"], case["subs"]], sort_keys=True))
            digests.add((oc, pc["digest"]))
            tag = f"{t['world']}:{case['subs'][0][0]}.{case['subs'][0][1]}"
            if oc == "probe-inert":
                inert.append(tag)
            if oc == "skipped_inexact_at_discontinuity":
                skipped.append(tag + "->" + spec_unit(case["subs"][0][2]))
            if oc.startswith("stale-update-path"):
                stale.append(tag)
            key = (case["mode"], len(case["subs"]) > 2, oc)
            if key not in seen_sample and ("in", tag) not in seen_sample and len(samples) < 8:
                seen_sample.add(key)
                seen_sample.add(("in", tag))
                samples.append(describe(t["world"], case, oc))
            for v in pc["violations"]:
                vt = {"world": t["world"], "cases": [{"mode": case["mode"], "subs": v["subs"]}]}
                run.violation(v["sig"], {"task": vt, "detail": v["detail"],
                                         "size": len(v["subs"]) * 10 + MODES.index(case["mode"])})
    for oc, n in outcomes.items():
        run.count("outcome:" + oc, n)
    cov = {
        "states": len(states), "transitions": tot["builds"] + tot["assignments"],
        "traces_validated_against_impl": tot["compared"],
        "builds": tot["builds"], "live_assignments": tot["assignments"], "cases": len(cases),
        "samples": samples, "exhaustive": not timeouts, "distinct_outcomes": len(digests),
        "outcomes_by_mode": by_mode, "inputs_per_world": info["inputs"],
        "alternative_units_available_per_world": info["alternatives"],
        "re_expressions_exact": info["exact"], "re_expressions_inexact_within_one_ulp": info["inexact"],
        "unit_atoms_used": dict(sorted(info["units_used"].items())),
        "inert_inputs_under_probe": sorted(set(inert)),
        "skipped_inexact_at_discontinuity": sorted(set(skipped)),
        "stale_update_path_cases": sorted(set(stale)),
        "bounds": ("worlds W1, W3, W4 (closure of the system); every 'q' and 'h' input; unit lists per family: "
                   + "; ".join(f"{f}: {family_list(f, tier)}" for f in FAMILY)
                   + ("; quick: 3 alternative units per input for fresh builds, 1 for live, 1 for live2, 1 probe, "
                      "in W4 that treatment for the builder classes and one fresh build for every other input, all-inputs-at-once for 5 rotations (all inputs "
                      "of all three worlds)" if tier == "quick" else
                      "; thorough: every alternative unit for fresh/live/live2, all-inputs-at-once for every rotation, "
                      "all pairs of inputs (one alternative each, fresh)")),
        "explanation": "each case executes the real constructors / ModelingUpdate on a re-expressed world and compares "
                       "every calculated attribute with the baseline build; distinct_outcomes counts distinct "
                       "(outcome, value digest) pairs including the x1.1 probes that must move the result",
    }
    # EFMC_CONFIRM=0 skips the double replay of every violation in fresh processes (only meant for mutation
    # calibration, where a mutant yields dozens of signatures whose replays dominate the run time)
    return run.finish(cov, confirm=os.environ.get("EFMC_CONFIRM", "1") != "0", assumptions=[
        "re-expressed magnitude = correctly rounded float of the exact rational value (factor table validated against "
        "pint at start-up); inexact re-expressions (<= 1 ulp) are not judged where the real code is discontinuous at "
        "the input (nudge +-1e-13 changes the result)",
        "tolerance rel 1e-9; absolute floor 1e-12 in base units + 1e-9 of the largest quantity of the same base unit held by "
        "the same object in the baseline (cancellation residues of cumulative sums); ids and set order fixed by the "
        "harness seams",
        "live2 divergences reproduced by the same two assignments in the original unit are attributed to the update "
        "path (C01), not to units"])


if __name__ == "__main__":
    try:
        sys.exit(main(sys.argv[1] if len(sys.argv) > 1 else "quick"))
    except engine.CrashError as e:
        print("HARNESS-ERROR", e)
        sys.exit(2)
