"""C05 — a what-if simulation never disturbs the baseline.

For every (world, schedule, change list, simulation date, toggle word): build the baseline, take input / identity /
value / graph / link snapshots, create the simulation on the real ModelingUpdate (it may raise), and require the
snapshots to be identical after creation and after every toggle-word prefix ending in `off`; all prefixes ending in
`on` must show one and the same simulated state.
"""
import itertools
import json
import sys

from efmc import boot, engine, report, world as W, snap as S, hist as H
from checks import c01

PROP = "C05"


def prepare():
    boot.install_seams()


def baseline_snapshots(m):
    objs = [S.unwrap(o) for o in m.objs.values()]           # whole universe: spares must not be disturbed either
    sys_objs = S.system_objects(m.system)
    ids, keep = S.identity_snapshot(objs)
    return {"input": S.input_snapshot(objs), "ids": ids, "_keep": keep, "value": S.value_snapshot(m.system, sys_objs),
            "graph": S.graph_snapshot(objs), "links": S.link_snapshot(objs)}


def compare_with_baseline(m, base):
    """Returns list of (clause, first differing key rendered)."""
    out = []
    now = baseline_snapshots(m)
    d = S.plain_diff(base["input"], now["input"])
    if d:
        out.append(("input-changed", d[0]))
    d = S.plain_diff(base["links"], now["links"])
    if d:
        out.append(("links-changed", d[0]))
    try:
        d = S.diff(base["value"], now["value"], rtol=0.0, atol=0.0)
    except Exception as ex:  # noqa
        d = [(("?", "?"), "snapshot failed", str(ex)[:80])]
    if d:
        out.append(("value-changed", d[0]))
    d = [(k, base["ids"].get(k), now["ids"].get(k)) for k in sorted(set(base["ids"]) | set(now["ids"]), key=repr)
         if base["ids"].get(k) != now["ids"].get(k)]
    if d:
        out.append(("not-the-same-object", d[0]))
    d = [(k, base["graph"].get(k), now["graph"].get(k)) for k in sorted(set(base["graph"]) | set(now["graph"]), key=repr)
         if base["graph"].get(k) != now["graph"].get(k)]
    if d:
        out.append(("graph-changed", d[0]))
    return out


def key_class(m, k):
    """(obj name, attr, ...) -> 'Class.attr'"""
    o = m.objs.get(k[0]) if isinstance(k, tuple) and k and k[0] not in ("fw", "containers") else None
    if isinstance(k, tuple) and k and k[0] in ("fw", "containers"):
        o2 = m.objs.get(k[1])
        return f"{k[0]}:{type(S.unwrap(o2)).__name__ if o2 is not None else '?'}"
    if o is None:
        return str(k)[:40]
    return S.class_attr(S.unwrap(o), k[1])


def run_task(task):
    w = H.world_of(task)
    m = W.build(w, perms=task.get("perms"))
    for e in task.get("history", []):
        W.apply_live(m, e)
        w = W.apply_spec(w, e)
    base = baseline_snapshots(m)
    res = {"violations": [], "counters": {}}
    changes, date = task["changes"], task["date"]
    lc = "sim[" + ", ".join(engine.letter_class(s, w) for s in changes) + "]"
    raised = None
    try:
        W.apply_live(m, ["sim", changes, date])
    except Exception as ex:  # noqa
        raised = type(ex).__name__
        raised_msg = str(ex)[:160]
    res["outcome"] = "created" if raised is None else "raised:" + raised
    boot.set_ranks(m.ranks)
    stage = "after-creation" if raised is None else "after-failed-creation"
    for clause, first in compare_with_baseline(m, base):
        sig = {"clause": clause, "stage": stage, "change": lc, "where": key_class(m, first[0])}
        if raised is not None:
            sig["raised_in"] = task.get("fail_kind", raised)
        res["violations"].append({"sig": sig, "detail": {"first_difference": [str(x)[:300] for x in first],
                                                          "exception": None if raised is None else raised_msg}})
    on_digests = []
    if raised is None and not res["violations"]:
        for i, t in enumerate(task.get("toggles", [])):
            try:
                W.apply_live(m, [t])
            except Exception as ex:  # noqa
                res["violations"].append({"sig": {"clause": "toggle-raises", "toggle": t, "change": lc,
                                                  "exc": type(ex).__name__},
                                          "detail": {"word": task["toggles"][:i + 1], "exception": str(ex)[:200]}})
                break
            boot.set_ranks(m.ranks)
            if t == "off":
                diffs = compare_with_baseline(m, base)
                for clause, first in diffs:
                    res["violations"].append({
                        "sig": {"clause": clause, "stage": "after-toggle-off", "change": lc, "where": key_class(m, first[0])},
                        "detail": {"word": task["toggles"][:i + 1], "first_difference": [str(x)[:300] for x in first]}})
                if diffs:
                    break
            else:
                try:
                    on_digests.append(S.digest(S.value_snapshot(m.system), 12))
                except Exception as ex:  # noqa
                    on_digests.append("snapshot-failed:" + type(ex).__name__)
        if len(set(on_digests)) > 1:
            res["violations"].append({"sig": {"clause": "on-states-differ", "change": lc},
                                      "detail": {"word": task.get("toggles"), "digests": on_digests}})
    res["on_digest"] = on_digests[0] if on_digests else None
    res["vdigest"] = res["on_digest"]
    return res


# ------------------------------------------------------------------------------------------------ enumeration
def change_lists(fam):
    w = W.family(fam)
    w0 = w
    nums = H.numeric_letters(w, w0, specials=True)
    keep = {"data_transferred", "data_stored", "request_duration", "user_time_spent", "average_carbon_intensity",
            "ram_needed", "compute_needed", "hourly_usage_journey_starts", "power", "server_type",
            "bandwidth_energy_intensity", "data_storage_duration", "timezone", "lifespan", "base_storage_need",
            "power_usage_effectiveness", "fixed_nb_of_instances"}
    seen, singles = set(), []
    for e in nums:
        if e[2] in keep and (w["objects"][e[1]]["cls"], e[2]) not in seen:
            seen.add((w["objects"][e[1]]["cls"], e[2]))
            singles.append(e)
    links = H.link_letters(w)
    lists = H.list_letters(w, allow_empty=False)
    # one link letter per (class, attr), two list letters per (class, attr)
    seenl, link_sel = set(), []
    for e in links:
        k = (w["objects"][e[1]]["cls"], e[2]) if e[2] != "country" else (w["objects"][e[1]]["cls"], e[2], e[3])
        if k not in seenl:
            seenl.add(k)
            link_sel.append(e)
    cnt, list_sel = {}, []
    for e in lists:
        k = (w["objects"][e[1]]["cls"], e[2])
        if cnt.get(k, 0) < 2:
            cnt[k] = cnt.get(k, 0) + 1
            list_sel.append(e)
    out = [[e] for e in singles + link_sel + list_sel]
    # pairs numeric + link
    for n_, l_ in zip(singles[:4], link_sel[:4]):
        out.append([n_, l_])
    return out


def failing_change_lists(fam):
    """Simulations that must raise, one family per raising point."""
    w = W.family(fam)
    names = W.reachable(w)
    jobs = [n for n in names if w["objects"][n]["cls"] == "Job"]
    servers = [n for n in names if w["objects"][n]["cls"] == "Server"]
    storages = [n for n in names if w["objects"][n]["cls"] == "Storage"]
    out = []
    j, sv, st = jobs[0], servers[0], storages[0]
    out.append(("wrong-unit", [["set", j, "data_transferred", ["q", 3.0, "watt"]]]))
    out.append(("negative", [["set", j, "data_transferred", ["q", -3.0, "kilobyte"]]]))
    out.append(("refused-category", [["set", sv, "server_type", ["c", "mainframe"]]]))
    out.append(("ram-capacity-exceeded", [["set", sv, "base_ram_consumption", ["q", 500.0, "gigabyte"]]]))
    out.append(("compute-capacity-exceeded", [["set", sv, "base_compute_consumption", ["q", 500.0, "cpu_core"]]]))
    out.append(("server-fixed-instances-exceeded", [["set", sv, "server_type", ["c", "on-premise"]],
                                                     ["set", sv, "fixed_nb_of_instances", ["q", 1.0, "dimensionless"]],
                                                     ["set", j, "ram_needed", ["q", 100.0, "gigabyte"]]]))
    out.append(("negative-storage", [["set", j, "data_stored", ["q", -500.0, "megabyte"]]]))
    out.append(("storage-fixed-instances-exceeded", [["set", st, "fixed_nb_of_instances", ["q", 1.0, "dimensionless"]],
                                                      ["set", j, "data_stored", ["q", 900.0, "gigabyte"]]]))
    spare_servers = [n for n in W.creation_order(w) if w["objects"][n]["cls"] == "Server" and n != sv]
    if spare_servers:
        other = spare_servers[0]
        out.append(("link-to-server-over-capacity", [["link", j, "server", other],
                                                      ["set", other, "base_ram_consumption", ["q", 500.0, "gigabyte"]]]))
        out.append(("capacity-then-link", [["set", sv, "base_compute_consumption", ["q", 500.0, "cpu_core"]],
                                           ["link", j, "server", other]]))
    steps = [n for n in names if w["objects"][n]["cls"] == "UsageJourneyStep"]
    out.append(("list-change-then-negative-storage", [["list", steps[0], "jobs", list(w["objects"][steps[0]]["attrs"]["jobs"][1])[::-1] + [jobs[-1]]],
                                                       ["set", j, "data_stored", ["q", -500.0, "megabyte"]]]))
    out.append(("list-change-then-refused-category", [["list", steps[0], "jobs", list(w["objects"][steps[0]]["attrs"]["jobs"][1]) + [jobs[-1]]],
                                                       ["set", sv, "server_type", ["c", "mainframe"]]]))
    out.append(("valid-then-wrong-unit", [["set", j, "ram_needed", ["q", 60.0, "megabyte"]],
                                          ["set", j, "data_transferred", ["q", 3.0, "watt"]]]))
    return out


def dates_for(fam, tier):
    # worlds start 2025-01-01 00:00 local (Paris: 2024-12-31 23:00 UTC)
    ds = ["2024-12-31 23:00 UTC", "2025-01-01 02:00 UTC", "2025-01-01 04:00 UTC"]
    if tier == "thorough":
        ds += ["2025-01-01 01:00 UTC", "2025-01-01 03:00 UTC"]
    return ds


def out_dates():
    return ["2024-12-30 10:00 UTC", "2025-02-01 00:00 UTC", "2025-01-01 02:00 naive"]


def toggle_words(L):
    return [list(p) for p in itertools.product(["on", "off"], repeat=L)]


TIERS = {"quick": {"worlds": [("W1", "rev"), ("W2", "default"), ("W3", "default")], "L": 2},
         "thorough": {"worlds": [("W1", "rev"), ("W1c", "default"), ("W2", "rev"), ("W3", "rev"), ("W4", "default")], "L": 4}}


def make_tasks(tier):
    cfg = TIERS[tier]
    tasks = []
    for fam, sched in cfg["worlds"]:
        w = W.family(fam)
        scheds = [{}, H.reversed_schedule(w)] if sched == "rev" else [{}]
        for perms in scheds:
            for ch in change_lists(fam):
                for d in dates_for(fam, tier):
                    for word in toggle_words(cfg["L"]):
                        tasks.append({"world": fam, "perms": perms, "history": [], "changes": ch, "date": d, "toggles": word})
                for d in out_dates():
                    tasks.append({"world": fam, "perms": perms, "history": [], "changes": ch, "date": d, "toggles": [],
                                  "fail_kind": "date-outside-or-naive"})
            for kind, ch in failing_change_lists(fam):
                for d in dates_for(fam, tier)[:2]:
                    tasks.append({"world": fam, "perms": perms, "history": [], "changes": ch, "date": d, "toggles": [],
                                  "fail_kind": kind})
    return tasks


def main(tier):
    prepare()
    run = report.Run(PROP, tier)
    engine.start(run_task, warm=boot.warm_up)
    tasks = make_tasks(tier)
    results = engine.pmap(tasks)
    engine.check_results(results, run)
    engine.stop()
    outcomes, digests, toggles = {}, set(), 0
    expected_failures_that_succeeded = 0
    for t, r in zip(tasks, results):
        if r.get("_timeout"):
            run.violation({"clause": "timeout", "change": str(t["changes"])[:80]}, {"task": t, "size": len(t["changes"])})
            continue
        outcomes[r["outcome"]] = outcomes.get(r["outcome"], 0) + 1
        toggles += len(t["toggles"])
        if r.get("on_digest"):
            digests.add(r["on_digest"])
        if t.get("fail_kind") and r["outcome"] == "created":
            expected_failures_that_succeeded += 1
            run.count("expected_failure_but_created:" + t["fail_kind"])
        for v in r["violations"]:
            run.violation(v["sig"], {"task": t, "detail": v["detail"], "size": len(t["changes"]) + len(t["toggles"])})
    cov = {"states": len(tasks), "transitions": len(tasks) + toggles, "traces_validated_against_impl": len(tasks),
           "samples": [tasks[0], tasks[len(tasks) // 2], tasks[-1]], "exhaustive": True,
           "outcomes": outcomes, "distinct_outcomes": len(digests),
           "bounds": f"worlds {TIERS[tier]['worlds']}, all toggle words of length {TIERS[tier]['L']} (every prefix checked), "
                     f"dates {dates_for('W1', tier)} + outside/naive {out_dates()}",
           "expected_failures_that_did_not_raise": expected_failures_that_succeeded}
    return run.finish(cov, assumptions=[
        "snapshots cover every object of the universe (spares included): inputs, links, identity of every value object, "
        "calculated values (bit-exact), calculation graph rendered by holder",
        "System.previous_total_*/all_changes/simulation bookkeeping attributes are not part of the baseline"])


if __name__ == "__main__":
    try:
        sys.exit(main(sys.argv[1] if len(sys.argv) > 1 else "quick"))
    except engine.CrashError as e:
        print("HARNESS-ERROR", e)
        sys.exit(2)
