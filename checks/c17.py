"""C17 — service and cloud-server builders are faithful shorthand.

Bounded exhaustive enumeration of the builders' categorical input spaces (7 video resolutions x 3 frame rates x 2
durations; 5 Ecobenchmark technologies x 6 implementation details; EcoLogits models; Boavizta cloud instances), each
builder alone in a minimal world and mixed with a plain job on the same server, executed on the real library.

Oracles
  (a) differential : the same world with every builder object replaced by its plain twin (service job -> Job / GpuJob
      carrying the five derived job parameters, service dropped and its base consumption added to the server's,
      BoaviztaCloudServer -> Server and GPUServer -> harness-side plain server carrying the derived hardware
      parameters) has the same footprints (server, storage, network, usage pattern, system).
  (b) rule         : every derived parameter equals the builder's stated rule recomputed here from the *inputs*
      (world spec) and from the packaged data read independently (Ecobenchmark CSV through `csv`, EcoLogits
      models.json through `json`, boaviztapi router called directly).
  (c) edit-refresh : after one live edit of a builder input (numeric x2, categorical -> another allowed value,
      provider+model / provider+instance through one grouped ModelingUpdate, job.service / service.server /
      job.server re-pointed to a spare object) the derived parameters and all footprints equal those of a model
      freshly built from the edited inputs; rule (b) is re-evaluated on that fresh model too.
"""
import asyncio
import copy
import csv
import json
import math
import os
import sys
import time

from efmc import boot, engine, report, world as W, snap as S

PROP = "C17"
Q, link, lst = W.Q, W.link, W.lst

RESOLUTIONS = {"480p (640 x 480)": 640 * 480, "720p (1280 x 720)": 1280 * 720, "1080p (1920 x 1080)": 1920 * 1080,
               "1440p (2560 x 1440)": 2560 * 1440, "2K (2048 x 1080)": 2048 * 1080, "4K (3840 x 2160)": 3840 * 2160,
               "8K (7680 x 4320)": 7680 * 4320}
FRAME_RATES = {"quick": [24.0, 30.0, 60.0], "thorough": [24.0, 30.0, 60.0]}
DURATIONS_MIN = {"quick": [20.0, 90.0], "thorough": [20.0, 90.0]}

SERVICE_CLASSES = ("VideoStreaming", "WebApplication", "GenAIModel")
SERVICE_JOB_CLASSES = ("VideoStreamingJob", "WebApplicationJob", "GenAIJob")
JOB_PARAMS = ["data_transferred", "data_stored", "request_duration", "compute_needed", "ram_needed"]
DERIVED = {
    "VideoStreamingJob": ["request_duration", "dynamic_bitrate", "data_transferred", "compute_needed", "ram_needed"],
    "WebApplicationJob": ["request_duration", "compute_needed", "ram_needed"],
    "GenAIJob": ["output_token_weights", "data_stored", "data_transferred", "request_duration", "ram_needed",
                 "compute_needed"],
    "GenAIModel": ["active_params", "total_params", "base_ram_consumption"],
    "BoaviztaCloudServer": ["carbon_footprint_fabrication", "power", "ram", "compute"],
    "GPUServer": ["carbon_footprint_fabrication", "power", "idle_power", "ram"],
}
FOOTPRINT_ATTRS = ["energy_footprint", "instances_fabrication_footprint", "devices_energy_footprint",
                   "devices_fabrication_footprint", "total_footprint"]
SYSTEM_SUMS = ["total_energy_footprint_sum_over_period", "total_fabrication_footprint_sum_over_period"]
TOTAL_FOOTPRINT_QUANTUM = 1.0001e-4      # System.total_footprint is rounded to 4 decimals of kg by the library

REF = {}          # reference data, loaded once by prepare()


# ------------------------------------------------------------------------------------------------ bootstrap
def prepare():
    if REF:
        return
    boot.all_classes()
    boot.install_seams()
    # harness-side plain server whose compute default is expressed in gpu (a plain Server refuses gpu units):
    # the plain twin of a GPUServer. Nothing else than the two defaults changes.
    Server = W.get_cls("Server")
    W.get_cls("GpuJob")
    W.get_cls("GenAIJob")
    if "GpuPlainServer" not in W._CLS:
        from efootprint.abstract_modeling_classes.source_objects import SourceValue
        from efootprint.constants.units import u

        class GpuPlainServer(Server):
            @classmethod
            def default_values(cls):
                d = Server.default_values()
                d["compute"] = SourceValue(4 * u.gpu)
                d["base_compute_consumption"] = SourceValue(0 * u.gpu)
                return d
        W._CLS["GpuPlainServer"] = GpuPlainServer
        W.ORDER.insert(W.ORDER.index("GPUServer") + 1, "GpuPlainServer")
        W.RANK_GROUP["GpuPlainServer"] = "Server"
        # harness-side plain job for gpu servers: a plain Job whose compute default is in gpu and whose `server`
        # parameter is annotated with the common server base class (a GPUServer is not a `Server`), so that the
        # check does not depend on whether the library validates the type of a link.
        from efootprint.core.usage.job import Job
        from efootprint.core.hardware.server_base import ServerBase
        from efootprint.abstract_modeling_classes.explainable_objects import ExplainableQuantity

        class GpuPlainJob(Job):
            @classmethod
            def default_values(cls):
                d = Job.default_values()
                d["compute_needed"] = SourceValue(1 * u.gpu)
                return d

            def __init__(self, name: str, server: ServerBase, data_transferred: ExplainableQuantity,
                         data_stored: ExplainableQuantity, request_duration: ExplainableQuantity,
                         compute_needed: ExplainableQuantity, ram_needed: ExplainableQuantity):
                super().__init__(name, server, data_transferred, data_stored, request_duration, compute_needed,
                                 ram_needed)
        W._CLS["GpuPlainJob"] = GpuPlainJob
        W.ORDER.insert(W.ORDER.index("GpuJob") + 1, "GpuPlainJob")
        W.RANK_GROUP["GpuPlainJob"] = "Job"
    # --- allowed categorical values, as the library declares them
    from efootprint.builders.services.video_streaming import VideoStreamingJob
    from efootprint.builders.services.web_application import get_ecobenchmark_technologies, get_implementation_details
    from efootprint.builders.services.generative_ai_ecologits import GenAIModel
    from efootprint.builders.hardware import boavizta_cloud_server as bcs
    REF["resolutions"] = [r.value for r in VideoStreamingJob.list_values()["resolution"]]
    REF["technologies"] = [str(t) for t in get_ecobenchmark_technologies()]
    REF["impl_details"] = [str(t) for t in get_implementation_details()]
    clv = GenAIModel.conditional_list_values()["model_name"]["conditional_list_values"]
    REF["genai"] = {p.value: _dedup([x.value for x in v]) for p, v in clv.items()}
    REF["genai_providers"] = [p.value for p in GenAIModel.list_values()["provider"]]
    cl = bcs.instance_types_conditional_list_values_dict["conditional_list_values"]
    REF["cloud"] = {p.value: _dedup([x.value for x in v]) for p, v in cl.items()}
    REF["cloud_providers"] = [p.value for p in bcs.all_boavizta_cloud_providers]
    # --- packaged data, read independently of the library
    eco = os.path.join(boot.REPO, "efootprint", "builders", "services", "ecobenchmark_analysis",
                       "ecobenchmark_data_for_job_defaults.csv")
    rows = {}
    with open(eco, newline="") as f:
        for r in csv.DictReader(f):
            rows.setdefault((r["service"], r["use_case"]),
                            (float(r["avg_cpu_core_per_request"]), float(r["avg_ram_per_request_in_MB"])))
    REF["eco_rows"] = rows
    import ecologits
    with open(os.path.join(os.path.dirname(ecologits.__file__), "data", "models.json")) as f:
        d = json.load(f)
    params = {}
    for mdl in d["models"]:
        params[(mdl["provider"], mdl["name"])] = mdl["architecture"]["parameters"]
    for a in d.get("aliases", []):
        params[(a["provider"], a["name"])] = params[(a["provider"], a["alias"])]
    REF["genai_params"] = params


def _dedup(xs):
    out, seen = [], set()
    for x in xs:
        if x not in seen:
            seen.add(x)
            out.append(x)
    return out


def _mid(x):
    return (x["min"] + x["max"]) / 2 if isinstance(x, dict) else x


def genai_params(provider, model):
    """(active, total) number of parameters (not billions) from the packaged EcoLogits JSON: a plain number is both,
    a range is taken at its midpoint, a mixture-of-experts entry gives active and total separately."""
    p = REF["genai_params"][(provider, model)]
    if isinstance(p, dict) and "total" in p:
        return _mid(p["active"]) * 1e9, _mid(p["total"]) * 1e9
    return _mid(p) * 1e9, _mid(p) * 1e9


def genai_kind(provider, model):
    p = REF["genai_params"][(provider, model)]
    if isinstance(p, dict) and "total" in p:
        return "moe" + ("-range" if isinstance(p["active"], dict) or isinstance(p["total"], dict) else "")
    return "range" if isinstance(p, dict) else "dense"


_api_cache = {}


def cloud_api(provider, instance_type):
    """The packaged Boavizta data for one instance, obtained by calling the boaviztapi router directly."""
    k = (provider, instance_type)
    if k not in _api_cache:
        from boaviztapi.routers.cloud_router import instance_cloud_impact
        try:
            r = asyncio.run(instance_cloud_impact(provider=provider, instance_type=instance_type, criteria=["gwp"]))
            _api_cache[k] = ("ok", {"fab_kg": r["impacts"]["gwp"]["embedded"]["value"],
                                    "power_W": r["verbose"]["avg_power"]["value"],
                                    "ram_GB": r["verbose"]["memory"]["value"],
                                    "vcpu": r["verbose"]["vcpu"]["value"],
                                    "units": [r["verbose"]["avg_power"]["unit"], r["verbose"]["memory"]["unit"]]})
        except Exception as ex:  # noqa  (6 archetypes of the packaged data cannot be evaluated by boaviztapi itself)
            _api_cache[k] = ("raises", type(ex).__name__)
    return _api_cache[k]


# ------------------------------------------------------------------------------------------------ worlds
STARTS = [100, 250, 0, 730, 410, 90]


def _tail(w, s1, s2):
    W.add(w, "s1", "UsageJourneyStep", user_time_spent=Q(20, "minute"), jobs=lst(*s1))
    steps = ["s1"]
    if s2:
        W.add(w, "s2", "UsageJourneyStep", user_time_spent=Q(70, "minute"), jobs=lst(*s2))
        steps.append("s2")
    W.add(w, "uj", "UsageJourney", uj_steps=lst(*steps))
    W.add(w, "nw", "Network")
    W._country(w, "c", "C", 100, "Europe/Paris")
    W.add(w, "d", "Device")
    W._up(w, "up", "uj", "nw", "c", ["d"], STARTS, "2025-01-01 00:00")
    w["objects"]["sys"] = {"cls": "System", "attrs": {"usage_patterns": lst("up")}}
    return w


def _cpu_servers(w):
    W._std_storage(w, "st")
    W._std_storage(w, "st_b")
    W.add(w, "sv", "Server", storage=link("st"), base_ram_consumption=Q(0.5, "gigabyte"),
          base_compute_consumption=Q(0.25, "cpu_core"))
    W.add(w, "sv_b", "Server", storage=link("st_b"), ram=Q(64, "gigabyte"), compute=Q(16, "cpu_core"),
          power=Q(200, "watt"), average_carbon_intensity=Q(300, "gram / kilowatt_hour"),
          base_ram_consumption=Q(1, "gigabyte"))


def genai_need_gb(provider, model, factor=1.2, bits=16.0):
    return factor * genai_params(provider, model)[1] * bits / 8e9


def genai_targets(case):
    """(provider, model) pairs the edit letters of a GenAI case switch to: first pick of the next provider (grouped
    update) and the next model of the same provider."""
    provs = REF["genai_providers"]
    p2 = provs[(provs.index(case["provider"]) + 1) % len(provs)]
    out = [(p2, pick_models(p2, 1)[0])]
    same = REF["genai"][case["provider"]]
    if len(same) > 1:
        out.append((case["provider"], same[(same.index(case["model"]) + 1) % len(same)]))
    return out


def make_world(kind, case, mixed):
    w = W.new_world(f"C17-{kind}-{'mixed' if mixed else 'alone'}")
    if kind == "video":
        _cpu_servers(w)
        W.add(w, "svc", "VideoStreaming", server=link("sv"))
        W.add(w, "svc_b", "VideoStreaming", server=link("sv_b"), bits_per_pixel=Q(0.2, "dimensionless"),
              base_ram_consumption=Q(1, "gigabyte"), static_delivery_cpu_cost=Q(6, "cpu_core * second / gigabyte"),
              ram_buffer_per_user=Q(80, "megabyte"))
        W.add(w, "jb", "VideoStreamingJob", service=link("svc"), resolution=["c", case["res"]],
              refresh_rate=Q(case["fps"], "1 / second"), video_duration=Q(case["dur_min"], "minute"),
              data_stored=Q(0.5, "megabyte"))
    elif kind == "web":
        _cpu_servers(w)
        techs = REF["technologies"]
        W.add(w, "svc", "WebApplication", server=link("sv"), technology=["c", case["tech"]])
        W.add(w, "svc_b", "WebApplication", server=link("sv_b"),
              technology=["c", techs[(techs.index(case["tech"]) + 1) % len(techs)]])
        W.add(w, "jb", "WebApplicationJob", service=link("svc"), implementation_details=["c", case["impl"]])
    elif kind == "genai":
        other = ("mistralai", "open-mistral-7b")
        if (case["provider"], case["model"]) == other:
            other = ("mistralai", "open-mixtral-8x7b")
        # the servers are sized (3x the base RAM) for the largest model this world will hold, edits included
        need = max(genai_need_gb(*pm) for pm in [(case["provider"], case["model"])] + genai_targets(case))
        need_b = genai_need_gb(*other)
        W._std_storage(w, "st")
        W._std_storage(w, "st_b")
        W.add(w, "sv", "GPUServer", storage=link("st"), compute=Q(max(8, math.ceil(3 * need / 80)), "gpu"),
              base_ram_consumption=Q(0.5, "gigabyte"), base_compute_consumption=Q(0.25, "gpu"))
        W.add(w, "sv_b", "GPUServer", storage=link("st_b"), ram_per_gpu=Q(40, "gigabyte / gpu"),
              compute=Q(max(8, math.ceil(3 * (need + need_b) / 40)), "gpu"), gpu_power=Q(300, "watt / gpu"))
        W.add(w, "svc", "GenAIModel", server=link("sv"), provider=["c", case["provider"]],
              model_name=["c", case["model"]])
        W.add(w, "svc_b", "GenAIModel", server=link("sv_b"), provider=["c", other[0]], model_name=["c", other[1]],
              nb_of_bits_per_parameter=Q(8, "dimensionless"), bits_per_token=Q(32, "dimensionless"))
        W.add(w, "jb", "GenAIJob", service=link("svc"))
    elif kind == "cloud":
        other = ("scaleway", "ent1-s")
        if (case["provider"], case["instance"]) == other:
            other = ("scaleway", "dev1-s")
        W._std_storage(w, "st")
        W._std_storage(w, "st_b")
        W.add(w, "sv", "BoaviztaCloudServer", storage=link("st"), provider=["c", case["provider"]],
              instance_type=["c", case["instance"]], base_ram_consumption=Q(0.05, "gigabyte"),
              base_compute_consumption=Q(0.02, "cpu_core"))
        W.add(w, "sv_b", "BoaviztaCloudServer", storage=link("st_b"), provider=["c", other[0]],
              instance_type=["c", other[1]])
        W.add(w, "jp", "Job", server=link("sv"), ram_needed=Q(20, "megabyte"), request_duration=Q(90, "minute"))
        if mixed:
            W.add(w, "svc", "WebApplication", server=link("sv"))
            W.add(w, "jb", "WebApplicationJob", service=link("svc"))
            return _tail(w, ["jp"], ["jb", "jp"])
        return _tail(w, ["jp"], None)
    else:
        raise ValueError(kind)
    if mixed:
        if kind == "genai":   # RAM-heavy plain job so that the RAM dimension (hence the service's base RAM) is binding
            W.add(w, "jp", "GpuPlainJob", server=link("sv"), ram_needed=Q(4, "gigabyte"),
                  compute_needed=Q(0.01, "gpu"),
                  request_duration=Q(90, "minute"))
        else:
            W.add(w, "jp", "Job", server=link("sv"), ram_needed=Q(200, "megabyte"), request_duration=Q(90, "minute"))
            # a second service of the other kind on the same server, with its own job (two services sharing a server)
            if kind == "video":
                W.add(w, "svc2", "WebApplication", server=link("sv"))
                W.add(w, "jb2", "WebApplicationJob", service=link("svc2"))
            else:
                W.add(w, "svc2", "VideoStreaming", server=link("sv"))
                W.add(w, "jb2", "VideoStreamingJob", service=link("svc2"), video_duration=Q(10, "minute"))
            return _tail(w, ["jb", "jb2"], ["jp", "jb"])
        return _tail(w, ["jb"], ["jp", "jb"])
    return _tail(w, ["jb"], None)


# ------------------------------------------------------------------------------------------------ reference rules
def _base(v):
    """Magnitude of a ["q", m, unit] spec in base units (bit, second, cpu_core, gpu, kg m2 s-3, ...)."""
    return v[1] * S.base_factor(v[2])[0]


def _exp(mag, unit):
    f, b = S.base_factor(unit)
    return ("Q", b, mag * f)


def expected_derived(w, names):
    """{(object name, attr): canonical expected value} for every builder object among `names`, from the world spec."""
    out = {}
    O = w["objects"]
    for n in names:
        cls, a = O[n]["cls"], O[n]["attrs"]
        if cls == "VideoStreamingJob":
            s = O[a["service"][1]]["attrs"]
            px = RESOLUTIONS[a["resolution"][1]]
            bitrate = px * _base(s["bits_per_pixel"]) * _base(a["refresh_rate"])          # bit / s
            dur = _base(a["video_duration"])                                              # s
            out[(n, "request_duration")] = _exp(dur, "second")
            out[(n, "dynamic_bitrate")] = _exp(bitrate, "bit / second")
            out[(n, "data_transferred")] = _exp(bitrate * dur, "bit")
            out[(n, "compute_needed")] = _exp(_base(s["static_delivery_cpu_cost"]) * bitrate, "cpu_core")
            out[(n, "ram_needed")] = _exp(_base(s["ram_buffer_per_user"]), "bit")
            out[(n, "data_stored")] = _exp(_base(a["data_stored"]), "bit")
        elif cls == "WebApplicationJob":
            s = O[a["service"][1]]["attrs"]
            row = REF["eco_rows"][(s["technology"][1], a["implementation_details"][1])]
            out[(n, "request_duration")] = _exp(1.0, "second")
            out[(n, "compute_needed")] = _exp(row[0], "cpu_core")
            out[(n, "ram_needed")] = _exp(row[1], "megabyte")
            out[(n, "data_transferred")] = _exp(_base(a["data_transferred"]), "bit")
            out[(n, "data_stored")] = _exp(_base(a["data_stored"]), "bit")
        elif cls == "GenAIModel":
            active, total = genai_params(a["provider"][1], a["model_name"][1])
            out[(n, "active_params")] = _exp(active, "dimensionless")
            out[(n, "total_params")] = _exp(total, "dimensionless")
            out[(n, "base_ram_consumption")] = _exp(
                _base(a["llm_memory_factor"]) * total * _base(a["nb_of_bits_per_parameter"]), "bit")
        elif cls == "GenAIJob":
            s = O[a["service"][1]]["attrs"]
            srv = O[s["server"][1]]["attrs"]
            active, total = genai_params(s["provider"][1], s["model_name"][1])
            tokens = _base(a["output_token_count"])
            weights = tokens * _base(s["bits_per_token"])                                  # bit
            out[(n, "output_token_weights")] = _exp(weights, "bit")
            out[(n, "data_stored")] = _exp(100 * 8000.0 + weights, "bit")
            out[(n, "data_transferred")] = _exp(100 * 8000.0 + weights, "bit")
            out[(n, "request_duration")] = _exp(
                tokens * (_base(s["gpu_latency_alpha"]) * active + _base(s["gpu_latency_beta"])), "second")
            out[(n, "ram_needed")] = _exp(0.0, "bit")
            out[(n, "compute_needed")] = _exp(
                _base(s["llm_memory_factor"]) * active * _base(s["nb_of_bits_per_parameter"])
                / _base(srv["ram_per_gpu"]), "gpu")
        elif cls == "GPUServer":
            c = _base(a["compute"])
            out[(n, "power")] = _exp(_base(a["gpu_power"]) * c, "kilogram * meter ** 2 / second ** 3")
            out[(n, "idle_power")] = _exp(_base(a["gpu_idle_power"]) * c, "kilogram * meter ** 2 / second ** 3")
            out[(n, "ram")] = _exp(_base(a["ram_per_gpu"]) * c, "bit")
            out[(n, "carbon_footprint_fabrication")] = _exp(
                _base(a["carbon_footprint_fabrication_without_gpu"])
                + c * _base(a["carbon_footprint_fabrication_per_gpu"]), "kilogram")
        elif cls == "BoaviztaCloudServer":
            r = cloud_api(a["provider"][1], a["instance_type"][1])
            if r[0] == "ok":
                out[(n, "carbon_footprint_fabrication")] = _exp(r[1]["fab_kg"], "kilogram")
                out[(n, "power")] = _exp(r[1]["power_W"], "watt")
                out[(n, "ram")] = _exp(r[1]["ram_GB"], "gigabyte")
                out[(n, "compute")] = _exp(r[1]["vcpu"], "cpu_core")
    return out


def expected_build_failure(w, names):
    """Reason (str) why the reference itself has no value for this combination, else None."""
    O = w["objects"]
    for n in names:
        cls, a = O[n]["cls"], O[n]["attrs"]
        if cls == "WebApplicationJob":
            tech = O[a["service"][1]]["attrs"]["technology"][1]
            if (tech, a["implementation_details"][1]) not in REF["eco_rows"]:
                return f"no Ecobenchmark row for ({tech}, {a['implementation_details'][1]})"
        if cls == "BoaviztaCloudServer":
            r = cloud_api(a["provider"][1], a["instance_type"][1])
            if r[0] != "ok":
                return f"boaviztapi itself raises {r[1]} for ({a['provider'][1]}, {a['instance_type'][1]})"
    return None


def check_rules(w, m, state):
    """Clause (b) on a built model. Returns (violations, number of comparisons)."""
    names = [n for n in W.reachable(w)]
    exp = expected_derived(w, names)
    viols, n = [], 0
    for (name, attr), e in sorted(exp.items()):
        got = S.canon(getattr(m.objs[name], attr))
        n += 1
        if not S.close(got, e):
            cls = w["objects"][name]["cls"]
            viols.append({"sig": {"clause": "rule", "attr": f"{cls}.{attr}"},
                          "detail": {"state": state, "object": name, "library": S.render(got),
                                     "stated_rule": S.render(e),
                                     "inputs": {k: v for k, v in w["objects"][name]["attrs"].items()
                                                if v[0] in ("q", "c")}}})
    return viols, n


# ------------------------------------------------------------------------------------------------ observation
def selected_snapshot(system):
    """Derived parameters of builder objects + every footprint, by (object name, attr)."""
    out = {}
    objs = S.system_objects(system)
    for o in objs:
        calc = set(o.calculated_attributes)
        for a in DERIVED.get(type(o).__name__, []):
            out[(o.name, a)] = S.canon(getattr(o, a))
        for a in FOOTPRINT_ATTRS:
            if a in calc:
                out[(o.name, a)] = S.canon(getattr(o, a))
    for a in SYSTEM_SUMS:
        out[(system.name, a)] = S.canon(getattr(system, a))
    return out, objs


def footprints_only(snap):
    return {k: v for k, v in snap.items() if k[1] in FOOTPRINT_ATTRS or k[1] in SYSTEM_SUMS}


def snap_diff(a, b):
    out = []
    for k in sorted(set(a) | set(b), key=repr):
        if k not in a or k not in b:
            out.append((k, S.render(a[k]) if k in a else "<absent>", S.render(b[k]) if k in b else "<absent>"))
        elif k[1] == "total_footprint":
            if not S.close(a[k], b[k], S.RTOL, TOTAL_FOOTPRINT_QUANTUM):
                out.append((k, S.render(a[k]), S.render(b[k])))
        elif not S.close(a[k], b[k]):
            out.append((k, S.render(a[k]), S.render(b[k])))
    return out


_ORDER = ["UsageJourneyStep", "UsageJourney", "Device", "Country", "UsagePattern", "VideoStreaming", "WebApplication",
          "GenAIModel", "VideoStreamingJob", "WebApplicationJob", "GenAIJob", "Job", "GpuJob", "GpuPlainJob", "Network",
          "GPUServer",
          "BoaviztaCloudServer", "Server", "GpuPlainServer", "Storage", "System"]


def first_divergent(d, cls_of):
    """'Class.attr' of the earliest divergent value in computation order."""
    def rank(t):
        c = cls_of.get(t[0][0], "?")
        attrs = DERIVED.get(c, []) + FOOTPRINT_ATTRS + SYSTEM_SUMS
        return (_ORDER.index(c) if c in _ORDER else 99, t[0][0],
                attrs.index(t[0][1]) if t[0][1] in attrs else 99, t[0][1])
    f = min(d, key=rank)
    return f"{cls_of.get(f[0][0], '?')}.{f[0][1]}", f


# ------------------------------------------------------------------------------------------------ twin world
def _sum_in_unit(base_spec, extras, attr):
    mag, unit = base_spec[1], base_spec[2]
    from efootprint.constants.units import u
    for svc in extras:
        v = getattr(svc, attr)
        if hasattr(v, "value") and hasattr(v.value, "magnitude"):
            mag += v.value.to(u(unit).units).magnitude
    return ["q", mag, unit]


def twin_world(w, m):
    """The plain model: builder objects of the forward closure replaced by plain objects carrying the derived values
    read from the live builder model `m`."""
    names = W.reachable(w)
    O = w["objects"]
    t = W.new_world(w["name"] + "-twin")
    services_on = {}
    for n in names:
        if O[n]["cls"] in SERVICE_CLASSES:
            services_on.setdefault(O[n]["attrs"]["server"][1], []).append(m.objs[n])
    for n in names:
        cls, a = O[n]["cls"], dict(O[n]["attrs"])
        live = m.objs[n]
        if cls in SERVICE_CLASSES:
            continue
        if cls in SERVICE_JOB_CLASSES:
            na = {"server": link(O[a["service"][1]]["attrs"]["server"][1])}
            for p in JOB_PARAMS:
                na[p] = W.value_to_spec(getattr(live, p))
            t["objects"][n] = {"cls": "GpuPlainJob" if "gpu" in na["compute_needed"][2] else "Job", "attrs": na}
            continue
        if cls == "BoaviztaCloudServer":
            a.pop("provider")
            a.pop("instance_type")
            for p in ("carbon_footprint_fabrication", "power", "ram", "compute"):
                a[p] = W.value_to_spec(getattr(live, p))
            cls = "Server"
        elif cls == "GPUServer":
            for p in ("gpu_power", "gpu_idle_power", "ram_per_gpu", "carbon_footprint_fabrication_per_gpu",
                      "carbon_footprint_fabrication_without_gpu"):
                a.pop(p)
            for p in ("carbon_footprint_fabrication", "power", "idle_power", "ram"):
                a[p] = W.value_to_spec(getattr(live, p))
            cls = "GpuPlainServer"
        if n in services_on:
            a["base_ram_consumption"] = _sum_in_unit(a["base_ram_consumption"], services_on[n], "base_ram_consumption")
            a["base_compute_consumption"] = _sum_in_unit(a["base_compute_consumption"], services_on[n],
                                                         "base_compute_consumption")
        t["objects"][n] = {"cls": cls, "attrs": a}
    return t


# ------------------------------------------------------------------------------------------------ letters
def _x2(w, obj, attr, zero_alt=None, factor=2.0):
    v = w["objects"][obj]["attrs"][attr]
    if v[1] == 0:
        return ["set", obj, attr, ["q", float(zero_alt), v[2]]]
    return ["set", obj, attr, ["q", v[1] * factor, v[2]]]


def _others(values, cur, tier):
    i = values.index(cur)
    rot = values[i + 1:] + values[:i]
    return rot if tier == "thorough" else rot[:1]


def letters_for(kind, w, case, mixed, tier, passthrough=True, rot=None):
    """Depth-1 edit letters of one world. rot=None (thorough): every letter in every world. Quick tier (rot = index
    of the world): video and web have many worlds, so the k-th letter is applied in the worlds with (k + rot) % 3 == 0;
    genai and cloud apply categorical, grouped and link letters in every world and the k-th numeric letter in the
    worlds with (k + rot) % 4 == 0. Every letter is thus exercised in a third / a quarter of the worlds of its kind."""
    L = _all_letters(kind, w, case, mixed, tier, passthrough)
    if rot is None:
        return L
    if kind in ("video", "web"):
        return [e for k, e in enumerate(L) if (k + rot) % 3 == 0]
    out, k = [], 0
    for e in L:
        if e[0] == "set" and e[3][0] == "q":
            if (k + rot) % 4 == 0:
                out.append(e)
            k += 1
        else:
            out.append(e)
    return out


def _all_letters(kind, w, case, mixed, tier, passthrough=True):
    L = []
    if kind == "video":
        for r in _others(REF["resolutions"], case["res"], tier):
            L.append(["set", "jb", "resolution", ["c", r]])
        L += [_x2(w, "jb", "video_duration"), _x2(w, "jb", "refresh_rate"), _x2(w, "jb", "data_stored")]
        L += [_x2(w, "svc", a) for a in ("base_ram_consumption", "bits_per_pixel", "static_delivery_cpu_cost",
                                         "ram_buffer_per_user")]
        L += [["link", "jb", "service", "svc_b"], ["link", "svc", "server", "sv_b"]]
    elif kind == "web":
        for t in _others(REF["technologies"], case["tech"], tier):
            L.append(["set", "svc", "technology", ["c", t]])
        for t in _others(REF["impl_details"], case["impl"], tier):
            L.append(["set", "jb", "implementation_details", ["c", t]])
        L += [_x2(w, "jb", "data_transferred"), _x2(w, "jb", "data_stored")]
        L += [["link", "jb", "service", "svc_b"], ["link", "svc", "server", "sv_b"]]
    elif kind == "genai":
        tg = genai_targets(case)
        L.append(["multi", [["set", "svc", "provider", ["c", tg[0][0]]], ["set", "svc", "model_name", ["c", tg[0][1]]]]])
        if len(tg) > 1:
            L.append(["set", "svc", "model_name", ["c", tg[1][1]]])
        L += [_x2(w, "svc", a) for a in ("nb_of_bits_per_parameter", "llm_memory_factor", "gpu_latency_alpha",
                                         "gpu_latency_beta", "bits_per_token")]
        L.append(_x2(w, "jb", "output_token_count"))
        L += [_x2(w, "sv", a) for a in ("gpu_power", "gpu_idle_power", "ram_per_gpu",
                                        "carbon_footprint_fabrication_per_gpu",
                                        "carbon_footprint_fabrication_without_gpu", "compute")]
        L += [["link", "jb", "service", "svc_b"], ["link", "svc", "server", "sv_b"]]
    elif kind == "cloud":
        same = REF["cloud"][case["provider"]]
        if len(same) > 1:
            L.append(["set", "sv", "instance_type", ["c", same[(same.index(case["instance"]) + 1) % len(same)]]])
        provs = REF["cloud_providers"]
        p2 = provs[(provs.index(case["provider"]) + 1) % len(provs)]
        L.append(["multi", [["set", "sv", "provider", ["c", p2]],
                            ["set", "sv", "instance_type", ["c", REF["cloud"][p2][0]]]]])
        L.append(["link", "jp", "server", "sv_b"])
        if mixed:
            L.append(["link", "svc", "server", "sv_b"])
        if passthrough:
            L += [_x2(w, "sv", "lifespan"), _x2(w, "sv", "idle_power", zero_alt=2.0),
                  _x2(w, "sv", "power_usage_effectiveness"), _x2(w, "sv", "average_carbon_intensity"),
                  _x2(w, "sv", "server_utilization_rate", factor=0.5), _x2(w, "sv", "base_ram_consumption"),
                  _x2(w, "sv", "base_compute_consumption")]
    return L


def letter_class(letter, w):
    return engine.letter_class(letter, w)


# ------------------------------------------------------------------------------------------------ task execution
def _try_build(w, closure_only=False):
    try:
        return W.build(w, closure_only=closure_only), None
    except Exception as ex:  # noqa
        return None, ex


def _exc(ex):
    return f"{type(ex).__name__}: {str(ex)[:160]}"


def run_base(kind, case, mixed, res):
    """Clauses (a) and (b) on one freshly built builder world."""
    w = make_world(kind, case, mixed)
    sub = {"kind": kind, "mixed": mixed, "cases": [case], "phase": "base"}
    names = W.reachable(w)
    why = expected_build_failure(w, names)
    m, ex = _try_build(w)
    tag = "mixed" if mixed else "alone"
    if m is None:
        if why is not None:
            res["counters"][f"build_refused_no_reference_data:{kind}:{type(ex).__name__}"] = \
                res["counters"].get(f"build_refused_no_reference_data:{kind}:{type(ex).__name__}", 0) + 1
            res["notes"].append({"case": case, "mixed": mixed, "reason": why, "library": _exc(ex)})
            res["outcomes"].append("refused:" + type(ex).__name__)
            return
        res["violations"].append({"sig": {"clause": "build-raises", "kind": kind, "mixed": tag,
                                          "exception": type(ex).__name__},
                                  "detail": {"exception": _exc(ex)}, "task": sub, "size": 1})
        res["outcomes"].append("raises:" + type(ex).__name__)
        return
    if why is not None:
        res["counters"]["built_although_reference_has_no_data"] = \
            res["counters"].get("built_although_reference_has_no_data", 0) + 1
    # (b)
    v, n = check_rules(w, m, "fresh build")
    res["counters"]["rule_comparisons"] += n
    for x in v:
        res["violations"].append(dict(x, task=sub, size=1))
    # (a)
    snap_b, objs = selected_snapshot(m.system)
    cls_of = {o.name: type(o).__name__ for o in objs}
    fb = footprints_only(snap_b)
    tw = twin_world(w, m)
    mt, ex = _try_build(tw)
    if mt is None:
        res["violations"].append({"sig": {"clause": "differential", "kind": kind, "mixed": tag,
                                          "first_divergent": "plain-twin-raises:" + type(ex).__name__},
                                  "detail": {"exception": _exc(ex)}, "task": sub, "size": 1})
    else:
        snap_t, _ = selected_snapshot(mt.system)
        ft = footprints_only(snap_t)
        res["counters"]["differential_comparisons"] += len(fb)
        d = snap_diff(fb, ft)
        if d:
            fd, f = first_divergent(d, cls_of)
            res["violations"].append({
                "sig": {"clause": "differential", "kind": kind, "mixed": tag, "first_divergent": fd},
                "detail": {"n_divergent": len(d), "first": [list(f[0]), "builder model: " + f[1], "plain model: " + f[2]],
                           "all_divergent": sorted({f"{k[0]}.{k[1]}" for k, _, _ in d})[:30],
                           "twin_objects": {n: tw["objects"][n] for n in tw["objects"]
                                            if tw["objects"][n]["cls"] in ("Job", "GpuPlainJob", "Server", "GpuPlainServer")}},
                "task": sub, "size": 1})
    res["outcomes"].append(S.digest(snap_b, 9))
    res["counters"]["base_cases"] += 1


def run_edit(kind, case, mixed, letter, res):
    """Clause (c) (+ clause (b) on the fresh model of the edited inputs) for one letter applied to the initial state."""
    w = make_world(kind, case, mixed)
    sub = {"kind": kind, "mixed": mixed, "cases": [case], "phase": "edits", "letters": [letter]}
    lc = letter_class(letter, w)
    m, ex = _try_build(w)
    if m is None:
        res["outcomes"].append("initial-refused")
        return
    res["counters"]["edits"] += 1
    w2 = W.apply_spec(w, letter)
    live_ex = None
    try:
        W.apply_live(m, letter)
    except Exception as e:  # noqa
        live_ex = e
    ranks = m.ranks
    mf, fresh_ex = _try_build(w2)
    boot.set_ranks(ranks)
    if live_ex is not None:
        if mf is None:
            res["counters"]["edit_refused_like_fresh_build:" + lc] = \
                res["counters"].get("edit_refused_like_fresh_build:" + lc, 0) + 1
            res["outcomes"].append("rejected:" + type(live_ex).__name__)
        else:
            res["violations"].append({
                "sig": {"clause": "edit-refresh", "letter": lc, "first_divergent": "raises:" + type(live_ex).__name__},
                "detail": {"live_edit_raises": _exc(live_ex), "fresh_build_of_edited_inputs": "succeeds"},
                "task": sub, "size": 2})
            res["outcomes"].append("live-raises-only:" + type(live_ex).__name__)
        return
    if mf is None:
        # the edit was accepted but the same inputs cannot be built: nothing to compare the refresh with
        res["counters"]["accepted_but_fresh_build_raises:" + lc + ":" + type(fresh_ex).__name__] = \
            res["counters"].get("accepted_but_fresh_build_raises:" + lc + ":" + type(fresh_ex).__name__, 0) + 1
        res["outcomes"].append("accepted-fresh-raises")
        return
    v, n = check_rules(w2, mf, "fresh build of edited inputs: " + lc)
    res["counters"]["rule_comparisons"] += n
    for x in v:
        res["violations"].append(dict(x, task=sub, size=2))
    boot.set_ranks(ranks)
    live, objs = selected_snapshot(m.system)
    fresh, fobjs = selected_snapshot(mf.system)
    cls_of = {o.name: type(o).__name__ for o in list(objs) + list(fobjs)}
    res["counters"]["edit_comparisons"] += len(fresh)
    d = snap_diff(live, fresh)
    if d:
        fd, f = first_divergent(d, cls_of)
        res["violations"].append({
            "sig": {"clause": "edit-refresh", "letter": lc, "first_divergent": fd},
            "detail": {"n_divergent": len(d), "first": [list(f[0]), "after live edit: " + f[1], "fresh build: " + f[2]],
                       "all_divergent": sorted({f"{k[0]}.{k[1]}" for k, _, _ in d})[:30], "letter": letter},
            "task": sub, "size": 2})
    res["outcomes"].append(S.digest(live, 9))


def run_task(task):
    prepare()
    res = {"violations": [], "counters": {"rule_comparisons": 0, "differential_comparisons": 0, "edit_comparisons": 0,
                                          "base_cases": 0, "edits": 0}, "outcomes": [], "notes": []}
    kind, mixed = task["kind"], task["mixed"]
    for case in task["cases"]:
        if task["phase"] == "base":
            run_base(kind, case, mixed, res)
        else:
            for letter in task["letters"]:
                run_edit(kind, case, mixed, letter, res)
    res["outcome"] = "violations" if res["violations"] else "ok"
    # replay looks at v["sig"]; the per-violation minimal task travels in v["task"]
    return res


# ------------------------------------------------------------------------------------------------ enumeration
def pick_models(provider, k):
    """First model of every architecture kind (dense number, range, mixture of experts, ...) then the first
    remaining ones, up to k."""
    names = REF["genai"][provider]
    out, kinds = [], set()
    for n in names:
        kd = genai_kind(provider, n)
        if kd not in kinds and len(out) < k:
            kinds.add(kd)
            out.append(n)
    for n in names:
        if len(out) >= k:
            break
        if n not in out:
            out.append(n)
    return out


def pick_instances(provider, k):
    names = REF["cloud"][provider]
    if len(names) <= k:
        return list(names)
    return _dedup([names[(i * (len(names) - 1)) // (k - 1)] for i in range(k)])


def enumerate_cases(tier):
    cases = {"video": [], "web": [], "genai": [], "cloud": []}
    for r in REF["resolutions"]:
        for f in FRAME_RATES[tier]:
            for d in DURATIONS_MIN[tier]:
                cases["video"].append({"res": r, "fps": f, "dur_min": d})
    for t in REF["technologies"]:
        for i in REF["impl_details"]:
            cases["web"].append({"tech": t, "impl": i})
    for p in REF["genai_providers"]:
        for mdl in (REF["genai"][p] if tier == "thorough" else pick_models(p, 3)):
            cases["genai"].append({"provider": p, "model": mdl})
    for p in REF["cloud_providers"]:
        for it in (REF["cloud"][p] if tier == "thorough" else pick_instances(p, 5)):
            cases["cloud"].append({"provider": p, "instance": it})
    return cases


def chunks(xs, n):
    return [xs[i:i + n] for i in range(0, len(xs), n)]


def main(tier):
    prepare()
    run = report.Run(PROP, tier)
    engine.start(run_task, warm=boot.warm_up)
    cases = enumerate_cases(tier)
    quick_cloud = {(c["provider"], c["instance"]) for p in REF["cloud_providers"]
                   for c in [{"provider": p, "instance": i} for i in pick_instances(p, 5)]}
    tasks = []
    n_letters = {}
    for kind, cs in cases.items():
        for mixed in (0, 1):
            for grp in chunks(cs, 4):
                tasks.append({"kind": kind, "mixed": mixed, "cases": grp, "phase": "base"})
            for ci, case in enumerate(cs):
                w = make_world(kind, case, mixed)
                pt = kind != "cloud" or (case["provider"], case["instance"]) in quick_cloud
                L = letters_for(kind, w, case, mixed, tier, passthrough=pt,
                                rot=(ci + mixed) if tier == "quick" else None)
                n_letters[kind] = n_letters.get(kind, 0) + len(L)
                for grp in chunks(L, 4):
                    tasks.append({"kind": kind, "mixed": mixed, "cases": [case], "phase": "edits", "letters": grp})
    results = engine.pmap(tasks)
    engine.stop()
    timeouts = engine.check_results(results, run)
    outcomes, notes = set(), []
    by_kind = {}
    for t, r in zip(tasks, results):
        if r.get("_timeout"):
            run.violation({"clause": "timeout", "kind": t["kind"], "phase": t["phase"]},
                          {"task": t, "detail": "execution did not terminate within the alarm", "size": 3})
            continue
        for v in r["violations"]:
            run.violation(v["sig"], {"task": v["task"], "detail": v["detail"], "size": v["size"]})
        for c, n in r["counters"].items():
            run.count(c, n)
        outcomes.update(r["outcomes"])
        notes += r["notes"]
        k = by_kind.setdefault(t["kind"], {"base_cases": 0, "edits": 0})
        k["base_cases"] += r["counters"]["base_cases"]
        k["edits"] += r["counters"]["edits"]
    n_states = sum(len(cs) * 2 for cs in cases.values()) + sum(n_letters.values())
    c = run.counters
    samples = [
        {"kind": "video", "case": cases["video"][0], "mixed": 0, "phase": "base"},
        {"kind": "video", "case": cases["video"][-1], "mixed": 1, "phase": "edits",
         "letter": letters_for("video", make_world("video", cases["video"][-1], 1), cases["video"][-1], 1, tier)[0]},
        {"kind": "web", "case": cases["web"][7], "mixed": 1, "phase": "base"},
        {"kind": "genai", "case": cases["genai"][0], "mixed": 0, "phase": "edits",
         "letter": letters_for("genai", make_world("genai", cases["genai"][0], 0), cases["genai"][0], 0, tier)[0]},
        {"kind": "genai", "case": cases["genai"][-1], "mixed": 1, "phase": "base"},
        {"kind": "cloud", "case": cases["cloud"][3], "mixed": 1, "phase": "base"},
        {"kind": "cloud", "case": cases["cloud"][-1], "mixed": 0, "phase": "edits",
         "letter": letters_for("cloud", make_world("cloud", cases["cloud"][-1], 0), cases["cloud"][-1], 0, tier)[0]},
    ]
    if notes:
        seen, uniq = set(), []
        for nt in notes:
            if nt["reason"] not in seen:
                seen.add(nt["reason"])
                uniq.append(nt)
        run.notes["allowed_combinations_that_cannot_be_built"] = uniq[:12]
    cov = {
        "states": n_states,
        "transitions": c.get("base_cases", 0) + c.get("edits", 0),
        "traces_validated_against_impl": c.get("rule_comparisons", 0) + c.get("differential_comparisons", 0)
        + c.get("edit_comparisons", 0),
        "samples": samples,
        "exhaustive": not timeouts,
        "distinct_outcomes": len(outcomes),
        "enumerated": {k: {"cases": len(v), "worlds": 2 * len(v), "edit_letters": n_letters.get(k, 0)}
                       for k, v in cases.items()},
        "executed": by_kind,
        "bounds": ("video: 7 resolutions x frame rates {24,30,60}/s x durations {20,90} min; web: 5 technologies x 6 "
                   "implementation details; genai: " + ("all EcoLogits models" if tier == "thorough" else
                                                        "every provider x 3 models (one per architecture kind first)")
                   + "; cloud: " + ("all Boavizta cloud instances (duplicates of the packaged list removed)"
                                    if tier == "thorough" else "every provider x 5 instance types spread over the list")
                   + "; each alone and mixed with a plain job on the same server; every builder input edited once "
                     "from the initial state (numeric x2, categorical -> " +
                   ("every other allowed value" if tier == "thorough" else "the next allowed value")
                   + ", provider changes grouped, links to a spare service / server"
                   + ("; letters rotated over the worlds: video/web every letter in every third world, genai/cloud "
                      "categorical+link letters in every world and every numeric letter in every fourth world"
                      if tier == "quick" else "; cloud pass-through server inputs only on the quick instance subset")
                   + "); usage pattern of 6 hours"),
        "explanation": "transitions = builder worlds built and checked (clauses a, b) + live edits checked against a "
                       "fresh build (clause c, and clause b on the fresh build); traces = number of value comparisons "
                       "between a reference prediction (stated rule / plain twin / fresh build) and the implementation",
    }
    return run.finish(cov, assumptions=[
        "plain twins of gpu objects are harness-side subclasses of Job / Server that only change the default unit "
        "(and, for the job, the annotation of `server`)",
        "reference data: Ecobenchmark CSV read with csv, EcoLogits models.json read with json (range = midpoint), "
        "boaviztapi router called directly; allowed-value lists are taken from the library's list_values",
        "footprints compared: energy_footprint, instances_fabrication_footprint, devices_* footprints, "
        "System.total_footprint (within its 1e-4 kg rounding quantum) and the system's per-category sums; "
        "tolerance rel 1e-9 / abs 1e-12 in base units",
        "allowed combinations for which the packaged data has no entry (no Ecobenchmark row, boaviztapi itself "
        "raises) are counted, not judged",
        "hash seam installed only to make runs reproducible (one schedule: creation order)"])


if __name__ == "__main__":
    try:
        sys.exit(main(sys.argv[1] if len(sys.argv) > 1 else "quick"))
    except engine.CrashError as e:
        print("HARNESS-ERROR", e)
        sys.exit(2)
