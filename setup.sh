#!/bin/sh
# Offline setup: nothing to build (pure Python run from /verif against /repo). Runs the self-test of the machinery.
cd "$(dirname "$0")" || exit 2
export PYTHONPATH=/verif PYTHONDONTWRITEBYTECODE=1 PYTHONHASHSEED=0
mkdir -p evidence replays
exec /venv/bin/python -m efmc.selftest
