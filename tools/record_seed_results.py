#!/usr/bin/env python3
"""Merge the integrator's confirmation (parsed from tools/try_seed.sh output) into seeded/<id>/meta.json."""
import json, os, re, sys
import subprocess
V = "/verif/seeded"
HEAD = subprocess.run(["git", "-C", "/repo", "rev-parse", "--short", "HEAD"], capture_output=True, text=True).stdout.strip()
text = "".join(open(f).read() for f in sys.argv[1:])
cur = None
res = {}
for line in text.splitlines():
    m = re.match(r"SEED (\S+): demo without=(\d+) with=(\d+) \| (.*)", line)
    if m:
        cur = m.group(1)
        res[cur] = {"demo_exit_without_change": int(m.group(2)), "demo_exit_with_change": int(m.group(3)),
                    "pinned_suite": m.group(4).strip(), "checks": {}}
        continue
    m = re.match(r"\s+(C\d+) rc=(\d+) wall=(\d+)s: (\d+) violation signatures \|\s*(.*)", line)
    if m and cur:
        sigs = re.findall(r"signature=(\{.*?\}) occurrences", m.group(5))
        res[cur]["checks"][m.group(1)] = {"exit": int(m.group(2)), "wall_s": int(m.group(3)),
                                          "violation_signatures": int(m.group(4)),
                                          "first_signatures": [json.loads(s) for s in sigs[:2]]}
for sid, r in res.items():
    d = os.path.join(V, sid)
    p = os.path.join(d, "meta.json")
    if not os.path.isdir(d):
        continue
    try:
        meta = json.load(open(p))
    except Exception:
        meta = {}
    r["how"] = ("tools/try_seed.sh seeded/%s %s  (scratch worktree of /repo HEAD; patch applied; tools/baseline.py; demo run with and "
                "without the change; quick tier of the listed checks with EFMC_REPO=<worktree>)" % (sid, " ".join(r["checks"])))
    r["caught_by"] = sorted(c for c, x in r["checks"].items() if x["exit"] == 1)
    prev = meta.get("integrator_confirmation", {})
    if "skipped" in r["pinned_suite"] and "284/284" in prev.get("pinned_suite", ""):
        # a re-confirmation run made with SKIP_SUITE=1: the suite result of the earlier full confirmation stands
        r["pinned_suite"] = prev["pinned_suite"] + " (from the first confirmation; this re-run skipped the suite)"
    r["repo_head"] = HEAD
    r["confirmed"] = r["demo_exit_without_change"] == 0 and r["demo_exit_with_change"] != 0 and "284/284" in r["pinned_suite"]
    meta["integrator_confirmation"] = r
    json.dump(meta, open(p, "w"), indent=1)
    print(sid, "confirmed" if r["confirmed"] else "NOT CONFIRMED", "caught by", r["caught_by"])
