#!/usr/bin/env python3
"""Regenerate the table of seeded changes in DESIGN.md (between the SEED-TABLE markers) from seeded/*/meta.json."""
import glob, json, os, re
V = os.path.dirname(os.path.dirname(os.path.abspath(__file__)))
rows = ["| seed | property | change (as described by its author) | caught by (tier) |", "|---|---|---|---|"]
for p in sorted(glob.glob(os.path.join(V, "seeded", "*", "meta.json"))):
    m = json.load(open(p))
    sid = os.path.basename(os.path.dirname(p))
    ic = m.get("integrator_confirmation", {})
    caught = ic.get("caught_by") or []
    tier = ic.get("tier", "quick")
    summ = re.sub(r"\s+", " ", m.get("summary", "")).replace("|", "/")
    if len(summ) > 230:
        summ = summ[:227] + "..."
    rows.append(f"| `{sid}` | {m.get('property')} | {summ} | {', '.join(caught) or 'NOT CAUGHT'} ({tier}) |")
table = "\n".join(rows)
d = os.path.join(V, "DESIGN.md")
s = open(d).read()
a, b = "<!-- SEED-TABLE-BEGIN -->", "<!-- SEED-TABLE-END -->"
if a in s:
    s = s[:s.index(a) + len(a)] + "\n" + table + "\n" + s[s.index(b):]
    open(d, "w").write(s)
    print(f"{len(rows) - 2} seeds written")
else:
    print(table)
