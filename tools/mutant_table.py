#!/usr/bin/env python3
"""Regenerate the mutation-audit table of DESIGN.md (between the MUTANT-TABLE markers) from mutants/results.json."""
import json, os
V = os.path.dirname(os.path.dirname(os.path.abspath(__file__)))
# judgement of the integrator for mutants no check catches (read the code at the site; see DESIGN §8.6)
WHY = {
    ("efootprint/core/usage/usage_journey.py", "return []"):
        "equivalent: branch of a journey that belongs to no usage pattern; nothing of a system depends on it",
    ("efootprint/core/hardware/hardware_base.py", "return []"):
        "equivalent: a device has no calculated attribute and a `devices` list change always recomputes the pattern itself",
    ("efootprint/core/usage/job.py", "drop left_parent=self.duration_in_full_hours"):
        "equivalent for the graph: `duration_in_full_hours` (hence `request_duration`) is also an operand of `data_exchange_per_hour` in the same sum",
    ("efootprint/core/hardware/storage.py", "drop left_parent=self.storage_needed"):
        "equivalent for the graph: `storage_needed` is itself an operand of `storage_delta`; in the empty branch no input can make it non-empty (only link / list edits, which recompute the object)",
    ("efootprint/core/hardware/storage.py", "drop left_parent=self.storage_delta"):
        "empty branch: the storage stores nothing whatever the inputs; only link / list edits change that and they recompute the object",
    ("efootprint/core/hardware/storage.py", "drop left_parent=self.raw_nb_of_instances"):
        "empty branch (no stored data): see above",
    ("efootprint/builders/services/generative_ai_ecologits.py", "drop left_parent=self.provider"):
        "equivalent in practice: the provider can only change together with the model name (disjoint lists per provider), which stays a parent",
    ("efootprint/builders/hardware/boavizta_cloud_server.py", "drop left_parent=self.provider"):
        "equivalent in practice: the provider can only change together with the instance type, which stays a parent",
    ("efootprint/core/hardware/server_base.py", "drop left_parent=self.raw_nb_of_instances"):
        "empty branch (server without load): only link / list edits change that and they recompute the object",
}
d = json.load(open(os.path.join(V, "mutants", "results.json")))["results"]
rows = ["| kind | site | mutation | outcome | remark |", "|---|---|---|---|---|"]
n = {"caught": 0, "missed": 0, "other": 0}
for r in d:
    st = r["status"]
    n[st if st in n else "other"] += 1
    site = f"`{r['file'].replace('efootprint/', '')}:{r['line']}`"
    if st == "caught":
        out, rem = "caught by " + ", ".join(r["caught_by"]), ""
    elif st == "missed":
        out = "not caught (" + ", ".join(f"{c} exit {v['exit']}" for c, v in r["checks"].items()) + ")"
        rem = WHY.get((r["file"], r["what"]), "")
        if "284/284" not in r.get("pinned_suite", ""):
            rem = ("rejected by the pinned suite; " + rem).strip("; ")
    else:
        out, rem = st, ""
    rows.append(f"| {r['kind']} | {site} | `{r['what']}` | {out} | {rem} |")
table = "\n".join(rows) + f"\n\n{n['caught']} caught, {n['missed']} not caught, {n['other']} not run, of {len(d)} mutants."
p = os.path.join(V, "DESIGN.md")
s = open(p).read()
a, b = "<!-- MUTANT-TABLE-BEGIN -->", "<!-- MUTANT-TABLE-END -->"
if a in s:
    s = s[:s.index(a) + len(a)] + "\n" + table + "\n" + s[s.index(b):]
    open(p, "w").write(s)
    print(n)
else:
    print(table)
