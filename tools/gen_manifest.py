#!/usr/bin/env python3
"""Regenerate MANIFEST.json from the table below (keeps the file valid at all times)."""
import json, os
V = "/verif"
CHECKS = json.load(open(os.path.join(V, "tools", "checks.json")))
props = [json.loads(l)["id"] for l in open(os.path.join(V, "properties.jsonl"))]
checks, na = [], []
for pid in props:
    c = CHECKS.get(pid)
    if c is None or c.get("not_applicable"):
        na.append({"property_id": pid, "reason": (c or {}).get("not_applicable", "check not built yet (see DESIGN.md §5)")})
        continue
    checks.append({
        "property_id": pid,
        "quick_cmd": f"./run_check {pid} quick",
        "thorough_cmd": f"./run_check {pid} thorough",
        "evidence_file": f"/verif/evidence/{pid}.json",
        "replay_cmd_template": f"./run_check {pid} --replay {{path}}",
        "engine": "efmc",
        "level_claimed": {"category": "model_checking", "text": c["text"], "design_ref": f"DESIGN.md §5 {pid}"},
        "level_note": c["note"],
        "technique": c["technique"]})
m = {
    "version": 1,
    "setup_cmd": "./setup.sh",
    "hooks": {"guard": "EFOOTPRINT_VERIF", "enable": "no source hooks: seams (ModelingObject.__hash__, uuid4) are installed from the harness at run time; EFOOTPRINT_VERIF=1 is exported by run_check for completeness",
              "baseline_off_cmd": "cd /repo && /venv/bin/python -m pytest -ra -q -p no:cacheprovider --timeout=900 --continue-on-collection-errors",
              "source_commits": [], "add_only": True},
    "engines": [{"name": "efmc", "path": "/verif/efmc", "serves_properties": [c["property_id"] for c in checks],
                 "kind_free_text": "hand-written explicit-state / bounded exhaustive explorer that executes the real library code (stateless: a state is the history that reaches it, replayed on fresh objects) under a controlled set-iteration schedule, with reference models written in Python"}],
    "checks": checks,
    "notes": "All checks run the working tree of /repo (sys.path, no bytecode). Known findings: /verif/known_findings.json. Seeded property-breaking changes used for calibration: /verif/seeded/.",
    "not_applicable": na}
json.dump(m, open(os.path.join(V, "MANIFEST.json"), "w"), indent=1)
print("checks:", len(checks), "not_applicable:", len(na))
