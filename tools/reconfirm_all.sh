#!/bin/sh
# Re-run every seeded change against /repo HEAD: patch applies, demo passes without / fails with the change, and the quick
# tier of the checks that caught it before (or of its own property) still exits 1.  SKIP_SUITE=1 skips the pinned suite
# for seeds whose suite result was already confirmed.  Output: one block per seed (format of try_seed.sh).
cd /verif
for d in seeded/*/; do
  id=$(basename $d)
  checks=$(python3 - "$d" <<'PY'
import json,sys
m=json.load(open(sys.argv[1]+"/meta.json"))
ic=m.get("integrator_confirmation",{})
c=ic.get("caught_by") or [m["property"]]
if m["property"] not in c: c=[m["property"]]+c
print(" ".join(c))
PY
)
  tools/try_seed.sh $d $checks 2>&1 | cut -c1-500
done
