#!/bin/sh
# Re-run every seeded change against /repo HEAD: patch applies, demo passes without / fails with the change, and the quick
# tier of the checks that caught it before (or of its own property) still exits 1.  LANES seeds run concurrently
# (default 3; each uses its own scratch worktree /tmp/try_<id>).  SKIP_SUITE=1 skips the pinned suite.
# Output: one log per seed under /root/scratch/logs/reconfirm/<id>.log (format of try_seed.sh).
cd /verif
mkdir -p /root/scratch/logs/reconfirm
ls -d seeded/*/ | while read d; do
  id=$(basename $d)
  checks=$(python3 - "$d" <<'PY'
import json,sys
m=json.load(open(sys.argv[1]+"/meta.json"))
ic=m.get("integrator_confirmation",{})
c=ic.get("caught_by") or [m["property"]]
if m["property"] not in c: c=[m["property"]]+c
print(" ".join(c))
PY
)
  echo "$id $checks"
done | xargs -P ${LANES:-3} -L 1 sh -c 'id=$0; tools/try_seed.sh seeded/$id "$@" > /root/scratch/logs/reconfirm/$id.log 2>&1; head -c 300 /root/scratch/logs/reconfirm/$id.log | head -2'
