#!/usr/bin/env python3
"""Regenerate the table of tier sizes / timings in DESIGN.md (TIER-TABLE markers) from evidence_by_tier/*.json."""
import glob, json, os
V = os.path.dirname(os.path.dirname(os.path.abspath(__file__)))
ev = {}
for f in glob.glob(os.path.join(V, "evidence_by_tier", "*.json")):
    e = json.load(open(f))
    ev[(e["property_id"], e["tier"])] = e
rows = ["| property | quick: states / transitions / wall | thorough: states / transitions / wall | known findings matched (thorough) | tree (quick, thorough) |",
        "|---|---|---|---|---|"]
for p in sorted({k[0] for k in ev}):
    cells = []
    for t in ("quick", "thorough"):
        e = ev.get((p, t))
        if e is None:
            cells.append("-")
        else:
            c = e["coverage"]
            cells.append(f"{c.get('states')} / {c.get('transitions')} / {round(e['wall_s'])} s"
                         + ("" if e["violations"] == 0 else f" (**{e['violations']} violations**)"))
    et = ev.get((p, "thorough")) or ev.get((p, "quick"))
    km = et["coverage"].get("known_findings_matched", {})
    heads = ", ".join((ev[(p, t)]["coverage"].get("tree_under_test", {}).get("head", "?") if (p, t) in ev else "-")
                      for t in ("quick", "thorough"))
    rows.append(f"| {p} | {cells[0]} | {cells[1]} | {', '.join(f'{k} x{v}' for k, v in km.items()) or '-'} | {heads} |")
table = "\n".join(rows)
d = os.path.join(V, "DESIGN.md")
s = open(d).read()
a, b = "<!-- TIER-TABLE-BEGIN -->", "<!-- TIER-TABLE-END -->"
if a in s:
    s = s[:s.index(a) + len(a)] + "\n" + table + "\n" + s[s.index(b):]
    open(d, "w").write(s)
    print(len(rows) - 2, "rows")
else:
    print(table)
