#!/bin/sh
# usage: try_seed.sh <seed dir with patch.diff demo.py> <check ids...>   (tier via TIER=quick|thorough)
# Verifies the seed in a scratch worktree of /repo HEAD (suite still passes, demo fails with / passes without the change)
# and runs the given checks against the patched tree. Nothing is written to /repo or to /verif/evidence.
seed=$(readlink -f "$1"); shift
name=$(basename "$seed")
wt=/tmp/try_$name
out=/root/scratch/seedout/$name
rm -rf "$out"; mkdir -p "$out"
git -C /repo worktree remove --force "$wt" >/dev/null 2>&1
git -C /repo worktree add --detach "$wt" HEAD >/dev/null 2>&1 || { echo "cannot create worktree"; exit 2; }
cd "$wt"
PYTHONPATH=$wt PYTHONDONTWRITEBYTECODE=1 /venv/bin/python "$seed/demo.py" > "$out/demo_without.txt" 2>&1; d0=$?
git apply "$seed/patch.diff" 2>/dev/null || git apply -C1 --recount "$seed/patch.diff" 2>/dev/null || patch -p1 -F3 -s < "$seed/patch.diff" || { echo "SEED $name: patch does not apply"; git -C /repo worktree remove --force "$wt"; exit 2; }
PYTHONPATH=$wt PYTHONDONTWRITEBYTECODE=1 /venv/bin/python "$seed/demo.py" > "$out/demo_with.txt" 2>&1; d1=$?
if [ -z "$SKIP_SUITE" ]; then suite=$(python3 /verif/tools/baseline.py "$wt" | head -1); else suite="(suite skipped)"; fi
echo "SEED $name: demo without=$d0 with=$d1 | $suite"
cd /verif
for c in "$@"; do
  s=$(date +%s)
  EFMC_REPO=$wt EFMC_OUT=$out ./run_check $c ${TIER:-quick} > "$out/$c.log" 2>&1; rc=$?
  e=$(date +%s)
  echo "  $c rc=$rc wall=$((e-s))s: $(grep -c '^VIOLATION' $out/$c.log) violation signatures | $(grep -A1 '^VIOLATION' $out/$c.log | grep signature | head -2 | cut -c1-260 | tr '\n' ' ')"
done
git -C /repo worktree remove --force "$wt"
find "$wt" -maxdepth 0 2>/dev/null && rm -rf "$wt"
exit 0
