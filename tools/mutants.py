#!/usr/bin/env python3
"""Mechanical mutation audit of the checks (NOT a check itself: it measures what the registered quick tiers detect).

Generates small dependency-dropping mutants of /repo HEAD in a scratch worktree, one at a time:
  A  an explicit ``left_parent=self.x`` / ``right_parent=self.x`` removed from an update function
     (the calculated value forgets one of its inputs in the calculation graph);
  B  a ``modeling_objects_whose_attributes_depend_directly_on_me`` property returning less than it should
     (objects downstream of a link / list change are not recomputed).
For each mutant the quick tier of the given checks is run with EFMC_REPO=<worktree>; a mutant no check catches gets the
pinned suite run on it too (a mutant the suite already rejects is not a realistic change).  Results go to
/verif/mutants/results.json.   usage: mutants.py [A|B|all] [max]
"""
import json
import os
import py_compile
import re
import subprocess
import sys
import time

REPO = "/repo"
WT = "/tmp/mutant_wt"
OUT = "/root/scratch/mutout"
RES = "/verif/mutants/results.json"
FILES_A = ["efootprint/core/usage/job.py", "efootprint/core/hardware/storage.py", "efootprint/core/hardware/server_base.py",
           "efootprint/builders/services/web_application.py", "efootprint/builders/services/video_streaming.py",
           "efootprint/builders/services/generative_ai_ecologits.py", "efootprint/builders/hardware/boavizta_cloud_server.py"]
FILES_B = ["efootprint/core/system.py", "efootprint/core/usage/usage_pattern.py", "efootprint/core/usage/usage_journey.py",
           "efootprint/core/usage/job.py", "efootprint/core/usage/usage_journey_step.py",
           "efootprint/core/hardware/server_base.py", "efootprint/core/hardware/network.py",
           "efootprint/core/hardware/infra_hardware.py", "efootprint/core/hardware/hardware_base.py",
           "efootprint/core/country.py", "efootprint/builders/services/service_base_class.py",
           "efootprint/builders/services/service_job_base_class.py"]
PARENT = re.compile(r"(left|right)_parent=self\.[\w\.]+")


def sh(cmd, **kw):
    return subprocess.run(cmd, shell=True, capture_output=True, text=True, **kw)


def mutants_a():
    out = []
    for f in FILES_A:
        lines = open(os.path.join(REPO, f)).read().split("\n")
        for i, line in enumerate(lines):
            for m in PARENT.finditer(line):
                a, b = m.span()
                new = line[:a] + line[b:]
                new = re.sub(r"\(\s*,\s*", "(", new)          # "(, x" -> "(x"
                new = re.sub(r",\s*,", ",", new)               # ", ," -> ","
                new = re.sub(r",\s*\)", ")", new)              # ", )" -> ")"
                new = re.sub(r"^(\s*),\s*", r"\1", new)        # leading comma
                if new.strip() == "":
                    new = None
                out.append({"kind": "A", "file": f, "line": i + 1, "old": line.strip(), "what": f"drop {m.group(0)}",
                            "edit": (i, new)})
    return out


def mutants_b():
    out = []
    for f in FILES_B:
        lines = open(os.path.join(REPO, f)).read().split("\n")
        for i, line in enumerate(lines):
            if "def modeling_objects_whose_attributes_depend_directly_on_me" not in line:
                continue
            # the return statement(s) of this property: up to the next def
            for j in range(i + 1, min(i + 14, len(lines))):
                if lines[j].lstrip().startswith("def ") or lines[j].lstrip().startswith("@"):
                    break
                s = lines[j].strip()
                if not s.startswith("return ") or s.endswith("("):
                    continue
                expr = s[len("return "):]
                if expr == "[]":
                    continue
                indent = lines[j][:len(lines[j]) - len(lines[j].lstrip())]
                variants = ["[]"]
                if " + " in expr:
                    parts = expr.split(" + ")
                    variants += [" + ".join(parts[:k] + parts[k + 1:]) for k in range(len(parts))]
                for v in variants:
                    out.append({"kind": "B", "file": f, "line": j + 1, "old": s, "what": f"return {v}",
                                "edit": (j, indent + "return " + v)})
    return out


def checks_for(m):
    if "builders" in m["file"]:
        return ["C17", "C08", "C01"]
    return ["C01", "C08"] if m["kind"] == "B" else ["C08", "C01"]


def run_one(m, idx):
    sh(f"git -C {REPO} worktree remove --force {WT}; rm -rf {WT}; git -C {REPO} worktree add --detach {WT} HEAD")
    path = os.path.join(WT, m["file"])
    lines = open(path).read().split("\n")
    i, new = m["edit"]
    if new is None:
        del lines[i]
    else:
        lines[i] = new
    open(path, "w").write("\n".join(lines))
    res = {k: m[k] for k in ("kind", "file", "line", "old", "what")}
    # compile with the interpreter the library runs under (3.12 syntax), not the one running this script
    if sh(f"/venv/bin/python -c \"import ast,sys; ast.parse(open(sys.argv[1]).read())\" {path}").returncode != 0:
        res["status"] = "does-not-compile"
        return res
    res["diff"] = sh(f"git -C {WT} diff -U0").stdout[-600:]
    caught = []
    for c in checks_for(m):
        t0 = time.time()
        out = f"{OUT}/{idx}"
        r = sh(f"cd /verif && EFMC_REPO={WT} EFMC_OUT={out} EFMC_MAX_CONFIRM=0 ./run_check {c} quick")
        sigs = re.findall(r"signature=(\{.*?\}) occurrences", r.stdout)
        res.setdefault("checks", {})[c] = {"exit": r.returncode, "wall_s": round(time.time() - t0),
                                           "signatures": len(sigs), "first": sigs[:1]}
        if r.returncode == 1:
            caught.append(c)
            break            # one catching check is enough for the audit
        if r.returncode not in (0, 1):
            res["checks"][c]["tail"] = (r.stdout + r.stderr)[-300:]
    res["caught_by"] = caught
    if not caught:
        r = sh(f"python3 /verif/tools/baseline.py {WT}")
        res["pinned_suite"] = r.stdout.strip().splitlines()[-1] if r.stdout.strip() else r.stderr[-200:]
    res["status"] = "caught" if caught else (
        "harness-error" if any(v["exit"] not in (0, 1) for v in res["checks"].values()) else "missed")
    sh(f"rm -rf {OUT}/{idx}")
    return res


def main():
    which = sys.argv[1] if len(sys.argv) > 1 else "all"
    mx = int(sys.argv[2]) if len(sys.argv) > 2 else 10 ** 6
    ms = (mutants_a() if which in ("A", "all") else []) + (mutants_b() if which in ("B", "all") else [])
    os.makedirs(os.path.dirname(RES), exist_ok=True)
    os.makedirs(OUT, exist_ok=True)
    results = json.load(open(RES)) if os.path.exists(RES) else {"results": []}
    redo = ("harness-error", "does-not-compile")
    done = {(r["file"], r["line"], r["what"]) for r in results["results"] if r["status"] not in redo}
    results["results"] = [r for r in results["results"] if r["status"] not in redo]
    head = sh(f"git -C {REPO} rev-parse --short HEAD").stdout.strip()
    n = 0
    for idx, m in enumerate(ms):
        if (m["file"], m["line"], m["what"]) in done or n >= mx:
            continue
        r = run_one(m, idx)
        r["repo_head"] = head
        results["results"].append(r)
        n += 1
        print(f"{r['status']:8s} {m['kind']} {m['file']}:{m['line']} {m['what']} -> {r.get('caught_by')} "
              f"{r.get('pinned_suite', '')}", flush=True)
        json.dump(results, open(RES, "w"), indent=1)
    sh(f"git -C {REPO} worktree remove --force {WT}; rm -rf {WT}")


if __name__ == "__main__":
    main()
