#!/usr/bin/env python3
"""Run the pinned suite on a repository tree and compare with /root/.vp/BASELINE.json (stable_pass names).
usage: baseline.py [repo_dir]   exit 0 iff every stable-pass test passes."""
import json, os, subprocess, sys, tempfile
import xml.etree.ElementTree as ET
repo = sys.argv[1] if len(sys.argv) > 1 else "/repo"
base = json.load(open("/root/.vp/BASELINE.json"))
want = set(base["stable_pass"])
with tempfile.TemporaryDirectory() as d:
    x = os.path.join(d, "r.xml")
    env = dict(os.environ)
    env.pop("EFOOTPRINT_VERIF", None)
    env["PYTHONDONTWRITEBYTECODE"] = "1"
    subprocess.run(["/venv/bin/python", "-m", "pytest", "-ra", "-q", "-p", "no:cacheprovider", "--timeout=900",
                    "--continue-on-collection-errors", f"--junitxml={x}"], cwd=repo, env=env,
                   stdout=subprocess.DEVNULL, stderr=subprocess.DEVNULL)
    passed = set()
    for tc in ET.parse(x).getroot().iter("testcase"):
        if not any(c.tag in ("failure", "error", "skipped") for c in tc):
            passed.add(f"{tc.get('classname')}::{tc.get('name')}")
missing = sorted(want - passed)
print(f"baseline: {len(want & passed)}/{len(want)} stable tests pass; newly passing: {len(passed - want)}")
for m in missing[:20]:
    print("  NOW FAILING:", m)
sys.exit(1 if missing else 0)
