#!/bin/sh
# run every check of a tier sequentially; summary lines to stdout, full logs under /root/scratch/logs
tier=${1:-quick}; shift
mkdir -p /root/scratch/logs
cd /verif
for p in ${@:-C01 C02 C03 C04 C05 C06 C07 C08 C09 C10 C11 C12 C13 C14 C15 C16 C17 C18 C19 C20}; do
  s=$(date +%s)
  ./run_check $p $tier > /root/scratch/logs/$p.$tier.log 2>&1
  rc=$?
  e=$(date +%s)
  echo "$p rc=$rc wall=$((e-s))s $(grep -c '^VIOLATION' /root/scratch/logs/$p.$tier.log) violations, $(grep -c '^KNOWN-FINDING' /root/scratch/logs/$p.$tier.log) known | $(tail -1 /root/scratch/logs/$p.$tier.log | cut -c1-150)"
done
